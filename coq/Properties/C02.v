(* C02 — Every optimisation combination preserves the meaning of the expression.
   Statements; proofs in Proofs/OptSound.v. PARTIAL: the first sentence (agreement of values) is proved in full;
   "all configurations return it when every reachable operand succeeds" and "with Reordering off the unoptimised
   value is returned" are checked by the correspondence (all 16 subsets x directives on every run), not proved. *)
Require Import Base Opcode Tables Ops Tree Opt Flat Run EvalDefs EvalTop OptSound Reorder.
From Coq Require Import Permutation.
Open Scope Z_scope.

(* every pass, hence every one of the 16 subsets under every cost map and stateless declaration, preserves the
   order-insensitive denotation `den` (and/or decided by any deciding operand; a failing operand = undefined) *)
Theorem C02_den_optimize : forall fetch custom cfg t, den fetch custom (optimize custom cfg t) = den fetch custom t.
Proof. exact den_optimize. Qed.
(* reordering: for ANY sorting function returning a permutation (covers NaN / infinite / negative costs) *)
Theorem C02_den_reorder_any_sorter : forall fetch custom sorter, (forall l, Permutation (sorter l) l) ->
  forall t, den fetch custom (reorder_with sorter t) = den fetch custom t.
Proof. exact den_reorder. Qed.

(* left-to-right short-circuit evaluation refines the denotation on the property's domain (operands of and/or are
   boolean-valued or undefined), and that domain is preserved by every pass *)
Theorem C02_sem_refines_den : forall fetch custom t, wt fetch custom t ->
  forall v, snd (sem fetch custom t) = Ok v -> den fetch custom t = Some v.
Proof. exact sem_refines_den. Qed.
Theorem C02_domain_preserved : forall fetch custom cfg t, wt fetch custom t -> wt fetch custom (optimize custom cfg t).
Proof. exact wt_optimize. Qed.

(* whenever two configurations both return a value for the same binding, it is the same value
   (through C01's theorem, `sem` of the optimised tree is what the compiled program returns) *)
Theorem C02_configurations_agree : forall fetch custom cfgA cfgB t a b, wt fetch custom t ->
  snd (sem fetch custom (optimize custom cfgA t)) = Ok a ->
  snd (sem fetch custom (optimize custom cfgB t)) = Ok b -> a = b.
Proof. exact configurations_agree. Qed.
Theorem C02_compiled_agree : forall fetch custom cfgA cfgB t a b, wt fetch custom t ->
  snd (eval fetch custom (compile (optimize custom cfgA t))) = MVal a ->
  snd (eval fetch custom (compile (optimize custom cfgB t))) = MVal b -> a = b.
Proof.
  intros fetch custom cfgA cfgB t a b W HA HB. rewrite run_compile_correct in HA, HB. unfold sem_obs in *. cbn [snd] in *.
  destruct (snd (sem fetch custom (optimize custom cfgA t))) eqn:EA; [|discriminate].
  destruct (snd (sem fetch custom (optimize custom cfgB t))) eqn:EB; [|discriminate].
  inversion HA; inversion HB; subst. eapply configurations_agree; eauto.
Qed.

(* non-vacuity: the guard pattern under all passes; a reordering that moves a failing operand behind a deciding one *)
Definition fz (n : str) (k : Z) : res value := if str_eqb n (ss "x") then Ok (VInt 0) else Ok (VBool true).
Definition nocustom (n : str) (a : list value) : res value := Err (EOther 0).
Definition cfg_all : config := {| enabled := []; stateless := []; registered := []; costs := []; events := false |}.
Definition cfg_none : config := {| enabled := [("constant_folding", false); ("reduce_nesting", false); ("fast_evaluation", false); ("reordering", false)]%string;
                                   stateless := []; registered := []; costs := []; events := false |}.
Definition guard : tree :=
  TOp (ss "and") false [TOp (ss "!=") false [TVar (ss "x") 1; TConst (VInt 0)];
                         TOp (ss ">") false [TOp (ss "/") false [TConst (VInt 10); TVar (ss "x") 1]; TConst (VInt 1)]].
Example C02_ex_guard :
  snd (sem fz nocustom (optimize nocustom cfg_none guard)) = Ok (VBool false) /\
  snd (sem fz nocustom (optimize nocustom cfg_all guard)) = Ok (VBool false) /\
  wt fz nocustom guard.
Proof.
  split; [vm_compute; reflexivity|split; [vm_compute; reflexivity|]].
  assert (Hleaf : forall name fast cs, op_kind name = None -> Forall (wt fz nocustom) cs -> wt fz nocustom (TOp name fast cs)).
  { intros name fast cs Hk Hc. apply wt_op. split; [exact Hc|]. intros d Hd. congruence. }
  assert (L2 : forall a b : tree, wt fz nocustom a -> wt fz nocustom b -> Forall (wt fz nocustom) [a; b])
      by (intros; constructor; [assumption|constructor; [assumption|constructor]]).
  unfold guard. apply wt_op. split.
  - apply L2.
    + apply Hleaf. vm_compute; reflexivity. apply L2; exact I.
    + apply Hleaf. vm_compute; reflexivity. apply L2. apply Hleaf. vm_compute; reflexivity. apply L2; exact I. exact I.
  - intros d _. constructor. right. exists false. vm_compute. reflexivity.
    constructor. left. vm_compute. reflexivity. constructor.
Qed.

Print Assumptions C02_configurations_agree.
Print Assumptions C02_compiled_agree.
