(* C02 — Every optimisation combination preserves the meaning of the expression.
   Statements; proofs in Proofs/OptSound.v (agreement of values), OptTotal.v (all configurations return the value when
   every reachable operand succeeds), OptValue.v (Reordering off: the unoptimised value). All three sentences of the
   property are theorems; `optimize` is compared with Go's optimised tree on every run, and all 16 subsets set by
   options and by `;;;;` directives are compared directly. *)
Require Import Base Opcode Tables Ops Tree Opt Flat Run EvalDefs EvalTop OptSound Reorder OptValue OptTotal.
From Coq Require Import Permutation.
Open Scope Z_scope.

(* every pass, hence every one of the 16 subsets under every cost map and stateless declaration, preserves the
   order-insensitive denotation `den` (and/or decided by any deciding operand; a failing operand = undefined) *)
Theorem C02_den_optimize : forall fetch custom cfg t, den fetch custom (optimize custom cfg t) = den fetch custom t.
Proof. exact den_optimize. Qed.
(* reordering: for ANY sorting function returning a permutation (covers NaN / infinite / negative costs) *)
Theorem C02_den_reorder_any_sorter : forall fetch custom sorter, (forall l, Permutation (sorter l) l) ->
  forall t, den fetch custom (reorder_with sorter t) = den fetch custom t.
Proof. exact den_reorder. Qed.

(* left-to-right short-circuit evaluation refines the denotation on the property's domain (operands of and/or are
   boolean-valued or undefined), and that domain is preserved by every pass *)
Theorem C02_sem_refines_den : forall fetch custom t, wt fetch custom t ->
  forall v, snd (sem fetch custom t) = Ok v -> den fetch custom t = Some v.
Proof. exact sem_refines_den. Qed.
Theorem C02_domain_preserved : forall fetch custom cfg t, wt fetch custom t -> wt fetch custom (optimize custom cfg t).
Proof. exact wt_optimize. Qed.

(* whenever two configurations both return a value for the same binding, it is the same value
   (through C01's theorem, `sem` of the optimised tree is what the compiled program returns) *)
Theorem C02_configurations_agree : forall fetch custom cfgA cfgB t a b, wt fetch custom t ->
  snd (sem fetch custom (optimize custom cfgA t)) = Ok a ->
  snd (sem fetch custom (optimize custom cfgB t)) = Ok b -> a = b.
Proof. exact configurations_agree. Qed.
Theorem C02_compiled_agree : forall fetch custom cfgA cfgB t a b, wt fetch custom t ->
  snd (eval fetch custom (compile (optimize custom cfgA t))) = MVal a ->
  snd (eval fetch custom (compile (optimize custom cfgB t))) = MVal b -> a = b.
Proof.
  intros fetch custom cfgA cfgB t a b W HA HB. rewrite run_compile_correct in HA, HB. unfold sem_obs in *. cbn [snd] in *.
  destruct (snd (sem fetch custom (optimize custom cfgA t))) eqn:EA; [|discriminate].
  destruct (snd (sem fetch custom (optimize custom cfgB t))) eqn:EB; [|discriminate].
  inversion HA; inversion HB; subst. eapply configurations_agree; eauto.
Qed.

(* second sentence: when evaluating every reachable operand succeeds — `rok t = Some v`: all operands of every
   operator in whatever order, and the taken branch of every `if`, evaluate, with result v — every configuration (any
   subset of the four passes incl. Reordering, any cost map, any stateless declarations) returns v *)
Theorem C02_all_configurations_return : forall fetch custom cfg t v,
  rok fetch custom t = Some v -> snd (sem fetch custom (optimize custom cfg t)) = Ok v.
Proof. exact all_configurations_return. Qed.
Theorem C02_all_configurations_return_compiled : forall fetch custom cfg t v,
  rok fetch custom t = Some v -> snd (eval fetch custom (compile (optimize custom cfg t))) = MVal v.
Proof.
  intros fetch custom cfg t v H. rewrite run_compile_correct. unfold sem_obs. cbn [snd].
  pose proof (all_configurations_return fetch custom cfg t v H) as A. unfold val in A. rewrite A. reflexivity.
Qed.

(* third sentence: with Reordering off, whatever the other switches, costs and stateless declarations: if plain
   left-to-right short-circuit evaluation of the parsed tree (no fast marks) returns a value, the optimised
   expression returns that value — on the property's domain (and/or operands boolean-valued) under a binding of all
   variables; so guard patterns stay safe *)
Theorem C02_reordering_off : forall fetch custom cfg t v,
  pass_on cfg "reordering" = false -> nofast t -> wt fetch custom t -> vars_ok fetch t ->
  snd (sem fetch custom t) = Ok v -> snd (sem fetch custom (optimize custom cfg t)) = Ok v.
Proof. exact no_reorder_value. Qed.
Theorem C02_reordering_off_compiled : forall fetch custom cfg t v,
  pass_on cfg "reordering" = false -> nofast t -> wt fetch custom t -> vars_ok fetch t ->
  snd (eval fetch custom (compile t)) = MVal v -> snd (eval fetch custom (compile (optimize custom cfg t))) = MVal v.
Proof.
  intros fetch custom cfg t v Hr Hn Hw Hv H. rewrite run_compile_correct in *. unfold sem_obs in *. cbn [snd] in *.
  destruct (snd (sem fetch custom t)) as [v0|e] eqn:E; [|discriminate]. inversion H; subst v0.
  pose proof (no_reorder_value fetch custom cfg t v Hr Hn Hw Hv E) as A. unfold val in A. rewrite A. reflexivity.
Qed.

(* non-vacuity: the guard pattern under all passes; a reordering that moves a failing operand behind a deciding one *)
Definition fz (n : str) (k : Z) : res value := if str_eqb n (ss "x") then Ok (VInt 0) else Ok (VBool true).
Definition nocustom (n : str) (a : list value) : res value := Err (EOther 0).
Definition cfg_all : config := {| enabled := []; stateless := []; registered := []; costs := []; events := false |}.
Definition cfg_none : config := {| enabled := [("constant_folding", false); ("reduce_nesting", false); ("fast_evaluation", false); ("reordering", false)]%string;
                                   stateless := []; registered := []; costs := []; events := false |}.
Definition guard : tree :=
  TOp (ss "and") false [TOp (ss "!=") false [TVar (ss "x") 1; TConst (VInt 0)];
                         TOp (ss ">") false [TOp (ss "/") false [TConst (VInt 10); TVar (ss "x") 1]; TConst (VInt 1)]].
Example C02_ex_guard :
  snd (sem fz nocustom (optimize nocustom cfg_none guard)) = Ok (VBool false) /\
  snd (sem fz nocustom (optimize nocustom cfg_all guard)) = Ok (VBool false) /\
  wt fz nocustom guard.
Proof.
  split; [vm_compute; reflexivity|split; [vm_compute; reflexivity|]].
  assert (Hleaf : forall name fast cs, op_kind name = None -> Forall (wt fz nocustom) cs -> wt fz nocustom (TOp name fast cs)).
  { intros name fast cs Hk Hc. apply wt_op. split; [exact Hc|]. intros d Hd. congruence. }
  assert (L2 : forall a b : tree, wt fz nocustom a -> wt fz nocustom b -> Forall (wt fz nocustom) [a; b])
      by (intros; constructor; [assumption|constructor; [assumption|constructor]]).
  unfold guard. apply wt_op. split.
  - apply L2.
    + apply Hleaf. vm_compute; reflexivity. apply L2; exact I.
    + apply Hleaf. vm_compute; reflexivity. apply L2. apply Hleaf. vm_compute; reflexivity. apply L2; exact I. exact I.
  - intros d _. constructor. right. exists false. vm_compute. reflexivity.
    constructor. left. vm_compute. reflexivity. constructor.
Qed.

Example C02_ex_hyps : nofast guard /\ vars_ok fz guard /\ pass_on cfg_none "reordering" = false.
Proof. cbn. repeat split; eexists; reflexivity. Qed.
Example C02_ex_rok : rok fz nocustom (TOp (ss "or") false [TOp (ss "=") false [TVar (ss "x") 1; TConst (VInt 0)]; TVar (ss "b") 2; TConst (VBool false)]) = Some (VBool true).
Proof. vm_compute. reflexivity. Qed.

(* the third sentence in its literal reading ("every expression") fails outside the domain `wt`: a NON-boolean operand in
   front of a deciding last operand - unoptimised evaluation never applies the operator (the last operand's value is the
   result), a fast operator applies it to both leaves and reports the type error. Recorded in known_findings.json
   (c02-nonboolean-operand-before-deciding-last-operand); the witness is replayed against the real code on every run. *)
Definition fb (n : str) (k : Z) : res value := Ok (VBool true).
Definition cfg_fast_only : config :=
  {| enabled := [("constant_folding", false); ("reduce_nesting", false); ("reordering", false)]%string; stateless := []; registered := []; costs := []; events := false |}.
Example C02_reordering_off_refuted_outside_domain :
  let t := TOp (ss "or") false [TConst (VInt 3); TVar (ss "b") 1] in
  pass_on cfg_fast_only "reordering" = false /\ nofast t /\
  snd (sem fb nocustom t) = Ok (VBool true) /\
  snd (sem fb nocustom (optimize nocustom cfg_fast_only t)) = Err (EType (ss "or")).
Proof. vm_compute. repeat split; reflexivity. Qed.

Print Assumptions C02_configurations_agree.
Print Assumptions C02_compiled_agree.
Print Assumptions C02_all_configurations_return_compiled.
Print Assumptions C02_reordering_off_compiled.
