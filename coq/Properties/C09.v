(* C09 — Capacity limits are enforced at compile time, never by overflow.
   Only statements; proofs in Proofs/Limits.v, EvalTop.v. *)
Require Import Base Opcode Tables Ops Tree Opt Flat FlatE Run CompFacts EvalDefs EvalTop Limits.
Open Scope Z_scope.

(* an accepted tree: its node count is its size and at most the generated limit (32767), every operator has at
   most the generated operand limit (127) — the check runs on the tree AFTER optimisation (compile_checked is
   applied to optimize cfg t), so flattening that creates a wider node is rejected *)
Theorem C09_check_accepts : forall t n, check t = inr n ->
  n = Z.of_nat (size t) /\ n <= max_nodes /\ ops_ok t.
Proof. exact check_accepts. Qed.
Theorem C09_check_rejects : forall t e, check t = inl e ->
  match e with CTooManyParams n => max_children < n | CTooManyNodes n => max_nodes < n | CTooManyEventNodes _ => False end.
Proof. exact check_rejects. Qed.

(* on accepted programs every stored field fits the narrow Go type (int8 childCnt, int16 osTop / maxStackSize,
   int16 program length): the model's unbounded integers and Go's fixed-width ones agree, nothing wraps *)
Theorem C09_accepted_in_range : forall t n, check t = inr n ->
  let P := compile t in
  lenZ (nodes P) = n /\ n <= max_nodes /\
  Forall (fun nd => fits16 (osTop nd) /\ fits8 (childCnt nd)) (nodes P) /\
  fits16 (maxStack P).
Proof. exact accepted_in_range. Qed.

(* the operand stack the evaluator allocates (8, 16 or one slot per node) holds every slot any node writes *)
Theorem C09_stack_large_enough : forall t i nd, getn (compile t) i = Some nd -> osTop nd < alloc (compile t).
Proof. exact compile_alloc. Qed.

(* and everything accepted evaluates to the reference result, without panic or fuel exhaustion *)
Theorem C09_accepted_evaluates : forall fetch custom t,
  eval fetch custom (compile t) = sem_obs (sem fetch custom t).
Proof. exact run_compile_correct. Qed.

(* with event nodes the compiled program is rejected when it exceeds the generated limit *)
Theorem C09_event_limit : forall cfg t P, compile_checked cfg t = inr P -> lenZ (nodes P) <= event_max_nodes.
Proof.
  intros cfg t P H. unfold compile_checked in H. destruct (check t); [discriminate|].
  destruct (event_max_nodes <? lenZ (nodes (compile_cfg cfg t))) eqn:E; [discriminate|]. inversion H; subst. lia.
Qed.

(* non-vacuity: 127 operands accepted, 128 rejected; depth 9 and 17 programs get the larger stacks *)
Example C09_ex_wide :
  (exists n, check (TOp (ss "+") false (repeat (TConst (VInt 1)) 127)) = inr n) /\
  check (TOp (ss "+") false (repeat (TConst (VInt 1)) 128)) = inl (CTooManyParams 128).
Proof. split; [eexists|]; vm_compute; reflexivity. Qed.
Example C09_ex_alloc :
  alloc (compile (TOp (ss "+") false (repeat (TConst (VInt 1)) 8))) = 8 /\
  alloc (compile (TOp (ss "+") false (repeat (TConst (VInt 1)) 9))) = 16 /\
  alloc (compile (TOp (ss "+") false (repeat (TConst (VInt 1)) 17))) = 18.
Proof. vm_compute. repeat split. Qed.

Print Assumptions C09_accepted_in_range.
Print Assumptions C09_stack_large_enough.
Print Assumptions C09_accepted_evaluates.
