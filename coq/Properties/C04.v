(* C04 — TryEval answers are never contradicted by fetching more variables.
   `tryeval` / `eval` are the models of Expr.TryEval / Expr.Eval run on the compiled flat program (compared with the
   Go functions on Go's own programs on every run); `trysem` / `sem` are their tree-level meanings.
   Proofs in Proofs/TryCorrect.v (machine level), EvalTop.v, TrySound.v. *)
Require Import Base Opcode Tables Ops Tree Opt Flat Run TryFacts TrySound EvalDefs EvalTop TryCorrect OptSound OptValue OptTotal.
Open Scope Z_scope.

(* the TryEval loop on the compiled program computes exactly `trysem`: value or the very error, the fetches of
   available variables and the operator applications, in order; no panic, no fuel exhaustion — for every tree,
   fetcher, operator table and availability predicate *)
Theorem C04_tryeval_is_trysem : forall fetch custom cached t,
  tryeval fetch custom cached (compile t) = sem_obs (trysem fetch custom cached t).
Proof. exact tryrun_compile_correct. Qed.

(* machine level: a definite answer of TryEval on the compiled program is the value Eval of the compiled program
   returns under EVERY completion of the unavailable variables for which Eval returns a value *)
Theorem C04_sound_compiled : forall custom fetch cached fetch',
  (forall n k, cached n k = true -> fetch' n k = fetch n k) ->
  forall t tr tr' v v', tryeval fetch custom cached (compile t) = (tr, MVal v) ->
    eval fetch' custom (compile t) = (tr', MVal v') -> v = VDNE \/ v = v'.
Proof.
  intros custom fetch cached fetch' Hc t tr tr' v v' H1 H2.
  rewrite tryrun_compile_correct in H1. rewrite run_compile_correct in H2. unfold sem_obs in *.
  apply (try_sound custom fetch cached fetch' Hc t v v').
  - destruct (snd (trysem fetch custom cached t)); inversion H1; reflexivity.
  - destruct (snd (sem fetch' custom t)); inversion H2; reflexivity.
Qed.

(* a definite answer (v <> VDNE) of TryEval under availability `cached` is the value Eval returns under EVERY
   completion fetch' of the unavailable variables for which Eval succeeds — for every tree, hence for
   optimize cfg t under every option subset *)
Theorem C04_sound : forall custom fetch cached fetch',
  (forall n k, cached n k = true -> fetch' n k = fetch n k) ->
  forall t v v', snd (trysem fetch custom cached t) = Ok v -> snd (sem fetch' custom t) = Ok v' ->
  v = VDNE \/ v = v'.
Proof. exact try_sound. Qed.

(* ... and of the SOURCE expression, when the program was compiled with any optimisation configuration: a definite
   answer of TryEval on the optimised expression is the value the expression as written has under every completion
   under which it and its optimised form return values (C02's theorem: they then agree); when strict evaluation of
   the source succeeds under the completion (`rok`), that is automatic *)
Theorem C04_sound_source : forall custom fetch cached fetch' cfg,
  (forall n k, cached n k = true -> fetch' n k = fetch n k) ->
  forall t v a b, wt fetch' custom t ->
    snd (trysem fetch custom cached (optimize custom cfg t)) = Ok v ->
    snd (sem fetch' custom t) = Ok a -> snd (sem fetch' custom (optimize custom cfg t)) = Ok b ->
    v = VDNE \/ v = a.
Proof.
  intros custom fetch cached fetch' cfg Hc t v a b W Hv Ha Hb.
  assert (E : a = b).
  { pose proof (sem_refines_den fetch' custom t W a Ha) as DA.
    pose proof (sem_refines_den fetch' custom _ (wt_optimize fetch' custom cfg t W) b Hb) as DB.
    rewrite den_optimize in DB. congruence. }
  subst b. exact (try_sound custom fetch cached fetch' Hc _ v a Hv Hb).
Qed.
Theorem C04_sound_source_strict : forall custom fetch cached fetch' cfg,
  (forall n k, cached n k = true -> fetch' n k = fetch n k) ->
  forall t v a, rok fetch' custom t = Some a ->
    snd (trysem fetch custom cached (optimize custom cfg t)) = Ok v -> v = VDNE \/ v = a.
Proof.
  intros custom fetch cached fetch' cfg Hc t v a R Hv.
  pose proof (all_configurations_return fetch' custom cfg t a R) as Hb. unfold OptValue.val in Hb.
  exact (try_sound custom fetch cached fetch' Hc _ v a Hv Hb).
Qed.

(* making more variables available never changes a definite answer *)
Theorem C04_monotone : forall custom fetch cached1 cached2,
  (forall n k, cached1 n k = true -> cached2 n k = true) ->
  forall t v v', snd (trysem fetch custom cached1 t) = Ok v -> snd (trysem fetch custom cached2 t) = Ok v' ->
  v = VDNE \/ v = v'.
Proof. exact try_mono. Qed.

(* all variables available: a value TryEval returns is the value Eval returns, whenever Eval returns one.
   PARTIAL with respect to the sentence "TryEval and Eval agree": on ill-typed expressions outside C01's domain
   Eval can return a value where TryEval reports the operator's type error (see C04_agree_refuted). *)
Theorem C04_agree_on_values_partial : forall custom fetch t v v',
  snd (trysem fetch custom all_cached t) = Ok v -> snd (sem fetch custom t) = Ok v' -> v = VDNE \/ v = v'.
Proof. exact try_eval_agree_on_values. Qed.

(* the witness of the strict reading failing (recorded in known_findings.json): (and 5 true), everything
   available: Eval returns true (the last operand's value), TryEval applies `and` and reports its type error *)
Definition nofetch (n : str) (k : Z) : res value := Err (EUnbound n).
Definition nocustom (n : str) (a : list value) : res value := Err (EOther 0).
Example C04_agree_refuted :
  let t := TOp (ss "and") false [TConst (VInt 5); TConst (VBool true)] in
  snd (sem nofetch nocustom t) = Ok (VBool true) /\
  snd (trysem nofetch nocustom all_cached t) = Err (EType (ss "and")).
Proof. vm_compute. split; reflexivity. Qed.

(* non-vacuity: a definite answer with an unavailable operand *)
Definition ex_fetch (n : str) (k : Z) : res value := if str_eqb n (ss "a") then Ok (VBool false) else Ok (VInt 0).
Definition ex_cached (n : str) (k : Z) : bool := str_eqb n (ss "a").
Example C04_ex :
  snd (trysem ex_fetch nocustom ex_cached
        (TOp (ss "and") false [TOp (ss "=") false [TConst (VInt 1); TOp (ss "/") false [TConst (VInt 1); TVar (ss "z") 2]]; TVar (ss "a") 1]))
  = Ok (VBool false).
Proof. vm_compute. reflexivity. Qed.

Print Assumptions C04_tryeval_is_trysem.
Print Assumptions C04_sound_compiled.
Print Assumptions C04_sound.
Print Assumptions C04_monotone.
