(* C04 — TryEval answers are never contradicted by fetching more variables.
   Statements about `trysem`, the tree-level meaning of TryEval (tied to the Go TryEval and to the model of its
   loop `tryrun` by the correspondence); proofs in Proofs/TrySound.v. *)
Require Import Base Opcode Tables Ops Tree Opt Flat Run TryFacts TrySound.
Open Scope Z_scope.

(* a definite answer (v <> VDNE) of TryEval under availability `cached` is the value Eval returns under EVERY
   completion fetch' of the unavailable variables for which Eval succeeds — for every tree, hence for
   optimize cfg t under every option subset *)
Theorem C04_sound : forall custom fetch cached fetch',
  (forall n k, cached n k = true -> fetch' n k = fetch n k) ->
  forall t v v', snd (trysem fetch custom cached t) = Ok v -> snd (sem fetch' custom t) = Ok v' ->
  v = VDNE \/ v = v'.
Proof. exact try_sound. Qed.

(* making more variables available never changes a definite answer *)
Theorem C04_monotone : forall custom fetch cached1 cached2,
  (forall n k, cached1 n k = true -> cached2 n k = true) ->
  forall t v v', snd (trysem fetch custom cached1 t) = Ok v -> snd (trysem fetch custom cached2 t) = Ok v' ->
  v = VDNE \/ v = v'.
Proof. exact try_mono. Qed.

(* all variables available: a value TryEval returns is the value Eval returns, whenever Eval returns one.
   PARTIAL with respect to the sentence "TryEval and Eval agree": on ill-typed expressions outside C01's domain
   Eval can return a value where TryEval reports the operator's type error (see C04_agree_refuted). *)
Theorem C04_agree_on_values_partial : forall custom fetch t v v',
  snd (trysem fetch custom all_cached t) = Ok v -> snd (sem fetch custom t) = Ok v' -> v = VDNE \/ v = v'.
Proof. exact try_eval_agree_on_values. Qed.

(* the witness of the strict reading failing (recorded in known_findings.json): (and 5 true), everything
   available: Eval returns true (the last operand's value), TryEval applies `and` and reports its type error *)
Definition nofetch (n : str) (k : Z) : res value := Err (EUnbound n).
Definition nocustom (n : str) (a : list value) : res value := Err (EOther 0).
Example C04_agree_refuted :
  let t := TOp (ss "and") false [TConst (VInt 5); TConst (VBool true)] in
  snd (sem nofetch nocustom t) = Ok (VBool true) /\
  snd (trysem nofetch nocustom all_cached t) = Err (EType (ss "and")).
Proof. vm_compute. split; reflexivity. Qed.

(* non-vacuity: a definite answer with an unavailable operand *)
Definition ex_fetch (n : str) (k : Z) : res value := if str_eqb n (ss "a") then Ok (VBool false) else Ok (VInt 0).
Definition ex_cached (n : str) (k : Z) : bool := str_eqb n (ss "a").
Example C04_ex :
  snd (trysem ex_fetch nocustom ex_cached
        (TOp (ss "and") false [TOp (ss "=") false [TConst (VInt 1); TOp (ss "/") false [TConst (VInt 1); TVar (ss "z") 2]]; TVar (ss "a") 1]))
  = Ok (VBool false).
Proof. vm_compute. reflexivity. Qed.

Print Assumptions C04_sound.
Print Assumptions C04_monotone.
