(* C11 — Variables read the value bound to their name under any key layout.
   Only statements; proofs in Proofs/VarsProofs.v. *)
Require Import Base Tables Vars VarsProofs.
Open Scope Z_scope.

(* GetOrRegisterKey never changes an existing assignment and returns the existing key of a known name *)
Theorem C11_register_preserves : forall km name n k, km_find n km = Some k -> km_find n (fst (get_or_register km name)) = Some k.
Proof. exact register_preserves. Qed.
Theorem C11_register_known : forall km name k, km_find name km = Some k -> get_or_register km name = (km, k).
Proof. exact register_known. Qed.
Theorem C11_register_returns_assignment : forall km name,
  km_find name (fst (get_or_register km name)) = Some (snd (get_or_register km name)).
Proof. exact register_returns_assignment. Qed.

(* ... and never assigns one key to two names: the new key is free (first free key in 1..size, or size+1 by a
   counting argument), from ANY pre-populated map with distinct keys *)
Theorem C11_register_fresh : forall km name, injective km -> km_find name km = None ->
  ~ In (snd (get_or_register km name)) (km_keys km).
Proof. exact register_fresh. Qed.
Theorem C11_register_injective : forall km name, injective km -> injective (fst (get_or_register km name)).
Proof. exact register_injective. Qed.
Theorem C11_register_key_range : forall km name, km_find name km = None -> 1 <= snd (get_or_register km name) <= lenZ km + 1.
Proof. exact register_key_range. Qed.
(* every registration history *)
Theorem C11_history : forall names km, injective km -> names_distinct km ->
  injective (fst (register_all km names)) /\ names_distinct (fst (register_all km names)) /\
  (forall n k, km_find n km = Some k -> km_find n (fst (register_all km names)) = Some k).
Proof. exact history_injective. Qed.

(* with distinct keys, a variable reads the normalised value bound to its name whichever fetcher NewCtxFromVars
   picks (undefined-variable mode; all keys in 0..255: slice; otherwise: map) *)
Theorem C11_fetch_correct : forall undefined km b name key g, injective km -> names_distinct km ->
  km_find name km = Some key -> b_find name b = Some g ->
  fget (new_ctx undefined km b) key name = Ok (unify g).
Proof. exact fetch_correct. Qed.
Theorem C11_fetch_undefined : forall km b name key g, b_find name b = Some g -> fget (new_ctx true km b) key name = Ok (unify g).
Proof. exact fetch_undefined. Qed.

Theorem C11_unify_spec :
  (forall z, unify (GInt z) = VInt z) /\ (forall z, unify (GInt8 z) = VInt z) /\ (forall z, unify (GInt16 z) = VInt z) /\
  (forall z, unify (GInt32 z) = VInt z) /\ (forall z, unify (GUint8 z) = VInt z) /\ (forall z, unify (GUint16 z) = VInt z) /\
  (forall z, unify (GUint32 z) = VInt z) /\
  (forall z, 0 <= z < two63 -> unify (GUint64 z) = VInt z) /\
  (forall z, two63 <= z < two64 -> unify (GUint64 z) = VInt (z - two64)) /\
  (forall l, unify (GInts l) = VIntL l) /\ (forall l, unify (GInt32s l) = VIntL l) /\
  (forall u, unify (GTime u) = VInt u) /\ (forall ns, unify (GDuration ns) = VInt (Z.quot ns 1000000000)).
Proof. exact unify_spec. Qed.

(* non-vacuity: the gap layout {a:1, b:3}: the next name gets the free key 2, and a layout filling 1..n gets n+1 *)
Example C11_ex :
  snd (get_or_register [(ss "a", 1); (ss "b", 3)] (ss "c")) = 2 /\
  snd (get_or_register [(ss "a", 2)] (ss "c")) = 1 /\
  snd (get_or_register [(ss "a", 1); (ss "b", 2)] (ss "c")) = 3 /\
  snd (get_or_register [(ss "a", -5); (ss "b", 300)] (ss "c")) = 1 /\
  fget (new_ctx false [(ss "a", 0); (ss "b", 255)] [(ss "b", GUint64 18446744073709551615)]) 255 (ss "b") = Ok (VInt (-1)).
Proof. vm_compute. repeat split. Qed.

Print Assumptions C11_register_injective.
Print Assumptions C11_fetch_correct.
Print Assumptions C11_history.
