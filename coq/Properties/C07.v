Require Import Base Opcode Tables Ops Tree Opt Flat Run.
Example placeholder_C07 : True. Proof. exact I. Qed.
Print Assumptions placeholder_C07.
