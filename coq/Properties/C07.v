(* C07 — Compiled expressions are immutable, re-entrant and goroutine-safe.
   PARTIAL BY NATURE. Proved: the Eval loop is iteration of a step function whose only state is the call's own
   (program counter, operand stack, observation log); the program is a parameter the step cannot write; hence under
   ANY interleaving of the steps of any number of calls over one shared program, every call ends with exactly what
   Eval returns in isolation. NOT provable in Gallina: that the Go functions have that shape at the memory level
   (no hidden shared mutable state, no data race) - this half is checked on every run by executing many goroutines
   on one shared Expr under the Go race detector and comparing every result with its isolated counterpart and the
   exported program before/after. Proofs: Proofs/ConcProofs.v. *)
Require Import Base Opcode Tables Ops Tree Opt Flat Run Conc EvalDefs EvalTop ConcProofs.
Open Scope Z_scope.

(* one loop iteration is a function of the call's private state; the loop is its iteration *)
Theorem C07_run_is_iterated_step : forall fetch custom P f i stk,
  run fetch custom P (S f) i stk = resume (run fetch custom P f) (istep fetch custom P i stk).
Proof. exact run_is_iterated_step. Qed.

(* any schedule: a call has made exactly as many private steps as it was scheduled; nothing else touched it *)
Theorem C07_interleaving_isolated : forall custom P sched calls n c, nth_error calls n = Some c ->
  nth_error (sys_run custom P calls sched) n = Some (iter_call custom P (count n sched) c).
Proof. exact interleaving_isolated. Qed.

(* every call that got at least len(nodes)+1 iterations has finished with Eval's isolated trace and outcome *)
Theorem C07_concurrent_calls_isolated : forall custom P sched fetches n f,
  nth_error fetches n = Some f -> snd (eval f custom P) <> MFuel ->
  (S (length (nodes P)) <= count n sched)%nat ->
  nth_error (sys_run custom P (map new_call fetches) sched) n =
    Some {| c_fetch := f; c_state := Finished (fst (eval f custom P)) (snd (eval f custom P)) |}.
Proof. exact concurrent_calls_isolated. Qed.

(* for compiled trees that is the reference semantics, for every binding of every call *)
Theorem C07_concurrent_compiled : forall custom t sched fetches n f,
  nth_error fetches n = Some f -> (S (length (nodes (compile t))) <= count n sched)%nat ->
  nth_error (sys_run custom (compile t) (map new_call fetches) sched) n =
    Some {| c_fetch := f; c_state := Finished (fst (sem_obs (sem f custom t))) (snd (sem_obs (sem f custom t))) |}.
Proof. exact concurrent_compiled. Qed.

(* non-vacuity: two calls with different bindings, interleaved step by step *)
Definition fa (n : str) (k : Z) : res value := Ok (VBool true).
Definition fb (n : str) (k : Z) : res value := Ok (VBool false).
Definition nocustom (n : str) (a : list value) : res value := Err (EOther 0).
Definition tr2 : tree := TOp (ss "and") false [TVar (ss "x") 1; TOp (ss "or") false [TVar (ss "y") 2; TVar (ss "x") 1]].
Example C07_ex :
  map c_state (sys_run nocustom (compile tr2) (map new_call [fa; fb]) [0; 1; 1; 0; 0; 1; 0; 1; 0; 1; 0; 1]%nat)
  = [Finished [OGet (ss "x") 1; OGet (ss "y") 2] (MVal (VBool true)); Finished [OGet (ss "x") 1] (MVal (VBool false))].
Proof. vm_compute. reflexivity. Qed.

Print Assumptions C07_concurrent_calls_isolated.
Print Assumptions C07_concurrent_compiled.
