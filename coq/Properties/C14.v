(* C14 — Whitespace, comments and IndentByParentheses never change meaning.
   Statements about `lex`, the model of parser.lex (compared with VerifLex on every run). Proofs: LexProofs.v.
   PARTIAL: layout invariance of the lexer is proved (white-space separators, comments anywhere between tokens);
   that IndentByParentheses preserves the tokens is NOT proved - the model of the formatter is compared
   with Go's on every string, and Go's tokens before/after formatting (once and twice) are compared directly. *)
Require Import Base Opcode Tables Ops Tree Opt Flat Run Directives Lexer Print LexProofs.
Open Scope Z_scope.

(* the lexer inverts every rendering of a token list: any (possibly empty) run of Unicode white space between
   tokens, empty only where the two neighbours cannot fuse; string literals are taken verbatim up to the next quote
   (spaces, parentheses, semicolons, backslashes, line breaks inside them are content) *)
Theorem C14_lex_render : forall is_letter is_number infix items fuel lead,
  wf_items is_letter is_number infix items -> all_space lead ->
  (length (lead ++ render items) < fuel)%nat ->
  lex_loop is_letter is_number fuel infix (lead ++ render items) = Some (map fst items).
Proof. exact lex_render. Qed.

(* hence: the token sequence, and so the compiled program, depends only on the tokens, not on the layout *)
Theorem C14_layout_invariance : forall is_letter is_number infix items1 items2,
  wf_items is_letter is_number infix items1 -> wf_items is_letter is_number infix items2 ->
  map fst items1 = map fst items2 ->
  lex is_letter is_number infix (render items1) = lex is_letter is_number infix (render items2).
Proof. exact layout_invariance. Qed.

(* comments never change meaning: two layouts whose tokens agree once the comments are dropped — comments anywhere
   between tokens, each running to its line break or to the end of the input — give the parser the same tokens *)
Theorem C14_comments_invariance : forall is_letter is_number infix items1 items2,
  wf_items is_letter is_number infix items1 -> wf_items is_letter is_number infix items2 ->
  drop_comments (map fst items1) = drop_comments (map fst items2) ->
  option_map drop_comments (lex is_letter is_number infix (render items1)) =
  option_map drop_comments (lex is_letter is_number infix (render items2)).
Proof. exact layout_invariance_comments. Qed.

(* a comment is one token reaching to the end of its line, whatever it contains *)
Theorem C14_comment_token : forall text s, ~ In 10%N text ->
  next_raw (59%N :: text ++ 10%N :: s) = (RComment (59%N :: text), 10%N :: s).
Proof. exact next_raw_comment. Qed.

(* directives are read from the comments before the first other token only *)
Theorem C14_leading_only : forall cs t rest, is_comment t = false ->
  leading_comments (map KComment cs ++ t :: rest) = cs.
Proof.
  induction cs as [|c cs IH]; intros t rest Ht; cbn [map app leading_comments].
  - destruct t; try reflexivity. discriminate.
  - rewrite IH by exact Ht. reflexivity.
Qed.

(* the formatter: full statement, not proved (kept visible) *)
Definition C14_indent_statement : Prop :=
  forall s, option_map drop_comments (lex_tab false (Print.indent_by_parens s)) = option_map drop_comments (lex_tab false s).

(* non-vacuity: the same tokens under three layouts, with a string containing every delimiter *)
Definition toks : list tok := [KLParen; KIdent (ss "="); KStr (ss "a (b); c
"); KIdent (ss "x.y"); KRParen].
Example C14_ex :
  lex_tab false (ss "(= ""a (b); c
"" x.y)") = Some toks /\
  lex_tab false (ss "(=	""a (b); c
""x.y  )") = Some toks /\
  lex_tab false (ss "(=""a (b); c
""x.y  )") = None /\
  option_map drop_comments (lex_tab false (ss " (  = ; note (
   ""a (b); c
""
 x.y)")) = Some toks.
Proof. vm_compute. repeat split. Qed.

Print Assumptions C14_lex_render.
Print Assumptions C14_layout_invariance.
Print Assumptions C14_comments_invariance.
