(* C14 — Whitespace, comments and IndentByParentheses never change meaning.
   Statements about `lex`, the model of parser.lex (compared with VerifLex on every run). Proofs: LexProofs.v.
   Layout invariance of the lexer is proved (white-space separators, comments anywhere between tokens), and so is the
   formatter: for every source the lexer accepts, IndentByParentheses returns a text with the same tokens and comments
   (FormatProofs.v), and a source the lexer rejects is still rejected after formatting (FormatReject.v): the formatter
   clause holds for ANY input, in BOTH notations (FormatInfix.v: the lexer is a notation-independent segmentation
   followed by a per-word classification, so the infix case, glued `!ident` included, reduces to the prefix theorems). *)
Require Import Base Opcode Tables Ops Tree Opt Flat Run Directives Lexer Parser Print LexProofs FormatProofs FormatReject FormatInfix.
Open Scope Z_scope.

(* the lexer inverts every rendering of a token list: any (possibly empty) run of Unicode white space between
   tokens, empty only where the two neighbours cannot fuse; string literals are taken verbatim up to the next quote
   (spaces, parentheses, semicolons, backslashes, line breaks inside them are content) *)
Theorem C14_lex_render : forall is_letter is_number infix items fuel lead,
  wf_items is_letter is_number infix items -> all_space lead ->
  (length (lead ++ render items) < fuel)%nat ->
  lex_loop is_letter is_number fuel infix (lead ++ render items) = Some (map fst items).
Proof. exact lex_render. Qed.

(* hence: the token sequence, and so the compiled program, depends only on the tokens, not on the layout *)
Theorem C14_layout_invariance : forall is_letter is_number infix items1 items2,
  wf_items is_letter is_number infix items1 -> wf_items is_letter is_number infix items2 ->
  map fst items1 = map fst items2 ->
  lex is_letter is_number infix (render items1) = lex is_letter is_number infix (render items2).
Proof. exact layout_invariance. Qed.

(* comments never change meaning: two layouts whose tokens agree once the comments are dropped — comments anywhere
   between tokens, each running to its line break or to the end of the input — give the parser the same tokens *)
Theorem C14_comments_invariance : forall is_letter is_number infix items1 items2,
  wf_items is_letter is_number infix items1 -> wf_items is_letter is_number infix items2 ->
  drop_comments (map fst items1) = drop_comments (map fst items2) ->
  option_map drop_comments (lex is_letter is_number infix (render items1)) =
  option_map drop_comments (lex is_letter is_number infix (render items2)).
Proof. exact layout_invariance_comments. Qed.

(* a comment is one token reaching to the end of its line, whatever it contains *)
Theorem C14_comment_token : forall text s, ~ In 10%N text ->
  next_raw (59%N :: text ++ 10%N :: s) = (RComment (59%N :: text), 10%N :: s).
Proof. exact next_raw_comment. Qed.

(* directives are read from the comments before the first other token only *)
Theorem C14_leading_only : forall cs t rest, is_comment t = false ->
  leading_comments (map KComment cs ++ t :: rest) = cs.
Proof.
  induction cs as [|c cs IH]; intros t rest Ht; cbn [map app leading_comments].
  - destruct t; try reflexivity. discriminate.
  - rewrite IH by exact Ht. reflexivity.
Qed.

(* ---------- IndentByParentheses (proofs: FormatProofs.v) ---------- *)

(* for EVERY source text the lexer accepts (prefix notation): the formatted text lexes to exactly the same tokens and
   comments - string literals with spaces, parentheses, semicolons, line breaks included - except that a comment
   ending the text loses its trailing white space (the formatter trims its result) *)
Theorem C14_indent_tokens : forall s toks, lex_tab false s = Some toks ->
  lex_tab false (indent_by_parens s) = Some (trim_last toks).
Proof. exact (indent_lexable is_letter_tab is_number_tab eq_refl eq_refl). Qed.

(* ... so what the parser sees, hence the parsed tree (hence, by C01/C15's theorems, the compiled program and its
   value), is the same; and the comments before the first token, where directives are read, are the same *)
Theorem C14_indent_meaning : forall s toks, lex_tab false s = Some toks ->
  option_map drop_comments (lex_tab false (indent_by_parens s)) = option_map drop_comments (lex_tab false s).
Proof. exact (indent_meaning_lexable is_letter_tab is_number_tab eq_refl eq_refl). Qed.
Theorem C14_indent_parse : forall c s toks, lex_tab false s = Some toks ->
  Parser.parse_source c false (indent_by_parens s) = Parser.parse_source c false s.
Proof.
  intros c s toks H. unfold Parser.parse_source. rewrite (C14_indent_tokens s toks H), H. rewrite trim_last_drop. reflexivity.
Qed.
Theorem C14_indent_directives : forall s toks, lex_tab false s = Some toks ->
  existsb (fun t => negb (is_comment t)) toks = true ->
  option_map leading_comments (lex_tab false (indent_by_parens s)) = Some (leading_comments toks).
Proof. intros s toks H Hn. rewrite (C14_indent_tokens s toks H). cbn [option_map]. rewrite trim_last_leading by exact Hn. reflexivity. Qed.

(* formatting twice gives the tokens of formatting once *)
Theorem C14_indent_twice : forall s toks, lex_tab false s = Some toks ->
  option_map drop_comments (lex_tab false (indent_by_parens (indent_by_parens s))) = Some (drop_comments toks).
Proof. exact (indent_twice is_letter_tab is_number_tab eq_refl eq_refl). Qed.

(* the same for every rendering of every well-formed token list, in either notation, for any letter/number
   classification under which the double quote is neither *)
Theorem C14_indent_layouts : forall is_letter is_number, is_letter 34%N = false -> is_number 34%N = false ->
  forall infix lead items, all_space lead -> wf_items is_letter is_number infix items ->
  lex is_letter is_number infix (indent_by_parens (lead ++ render items)) = Some (trim_last (map fst items)).
Proof. exact indent_tokens_wf. Qed.

(* and the lexer accepts exactly the renderings (prefix notation): every accepted source is white space followed by a
   well-formed rendering of its own tokens - so the theorems over renderings above speak about every accepted source *)
Theorem C14_lex_complete : forall is_letter is_number fuel s toks, lex_loop is_letter is_number fuel false s = Some toks ->
  exists lead items, s = lead ++ render items /\ all_space lead /\ wf_items is_letter is_number false items /\ map fst items = toks.
Proof. exact lex_complete. Qed.

(* a text the lexer REJECTS (a word that does not classify, a literal that is never closed) is still rejected after
   formatting: the formatter treats what precedes the offending token as above and leaves the token in place
   (FormatReject.v) *)
Theorem C14_indent_rejected : forall s, lex_tab false s = None -> lex_tab false (indent_by_parens s) = None.
Proof. exact (indent_rejected is_letter_tab is_number_tab eq_refl eq_refl). Qed.

(* the formatter clause in full: for ANY input, what the parser is given after formatting is what it is given before *)
Theorem C14_indent_statement : forall s,
  option_map drop_comments (lex_tab false (indent_by_parens s)) = option_map drop_comments (lex_tab false s).
Proof. exact (indent_meaning_all is_letter_tab is_number_tab eq_refl eq_refl). Qed.
Theorem C14_indent_parse_all : forall c s, Parser.parse_source c false (indent_by_parens s) = Parser.parse_source c false s.
Proof.
  intros c s. unfold Parser.parse_source. destruct (lex_tab false s) as [toks|] eqn:E.
  - rewrite (C14_indent_tokens s toks E), trim_last_drop. reflexivity.
  - rewrite (C14_indent_rejected s E). reflexivity.
Qed.

(* ---------- both notations (proofs: FormatInfix.v) ---------- *)

(* the lexer factors through a notation-independent segmentation: the raw pieces (comments, literals, delimiters,
   words) are those of the prefix lexer under the classification "every word character but the quote is a letter", and
   each notation only reclassifies the words (infix: the `!ident` split) *)
Theorem C14_lex_factor : forall fuel infix s,
  lex_loop is_letter_tab is_number_tab fuel infix s =
  match lex_loop L0 N0 fuel false s with Some raws => recl_all is_letter_tab is_number_tab infix raws | None => None end.
Proof. exact (lex_factor is_letter_tab is_number_tab eq_refl eq_refl). Qed.

(* for ANY input and EITHER notation: the formatted text lexes to the same tokens and comments (a comment ending the
   text trimmed), and a rejected text stays rejected *)
Theorem C14_indent_any : forall infix s,
  lex_tab infix (indent_by_parens s) = option_map trim_last (lex_tab infix s).
Proof. exact (indent_lex_any is_letter_tab is_number_tab eq_refl eq_refl). Qed.
Theorem C14_indent_statement_any : forall infix s,
  option_map drop_comments (lex_tab infix (indent_by_parens s)) = option_map drop_comments (lex_tab infix s).
Proof. exact (indent_meaning_any is_letter_tab is_number_tab eq_refl eq_refl). Qed.
Theorem C14_indent_parse_any : forall c infix s, Parser.parse_source c infix (indent_by_parens s) = Parser.parse_source c infix s.
Proof.
  intros c infix s. unfold Parser.parse_source. rewrite C14_indent_any. destruct (lex_tab infix s) as [toks|]; [|reflexivity].
  cbn [option_map]. rewrite trim_last_drop. reflexivity.
Qed.
(* the directive comments before the first token survive formatting in either notation *)
Theorem C14_indent_directives_any : forall infix s toks, lex_tab infix s = Some toks ->
  existsb (fun t => negb (is_comment t)) toks = true ->
  option_map leading_comments (lex_tab infix (indent_by_parens s)) = Some (leading_comments toks).
Proof. intros infix s toks H Hn. rewrite C14_indent_any, H. cbn [option_map]. rewrite trim_last_leading by exact Hn. reflexivity. Qed.

(* the first clause for EVERY accepted source and either notation: an accepted source is white space plus a well-formed
   layout of its raw pieces (comments, literals, delimiters, words); two layouts of the same pieces give the same tokens;
   and comments between the pieces never change what the parser is given *)
Theorem C14_lex_accepts_rendering : forall infix s toks, lex_tab infix s = Some toks ->
  exists lead items, s = lead ++ render items /\ all_space lead /\ wf_items L0 N0 false items /\
                     recl_all is_letter_tab is_number_tab infix (map fst items) = Some toks.
Proof. exact (lex_accepts_rendering is_letter_tab is_number_tab eq_refl eq_refl). Qed.
Theorem C14_layout_invariance_any : forall infix lead1 lead2 items1 items2,
  all_space lead1 -> all_space lead2 -> wf_items L0 N0 false items1 -> wf_items L0 N0 false items2 ->
  map fst items1 = map fst items2 ->
  lex_tab infix (lead1 ++ render items1) = lex_tab infix (lead2 ++ render items2).
Proof. exact (layout_invariance_any is_letter_tab is_number_tab eq_refl eq_refl). Qed.
Theorem C14_comments_invariance_any : forall infix lead1 lead2 items1 items2,
  all_space lead1 -> all_space lead2 -> wf_items L0 N0 false items1 -> wf_items L0 N0 false items2 ->
  drop_comments (map fst items1) = drop_comments (map fst items2) ->
  option_map drop_comments (lex_tab infix (lead1 ++ render items1)) =
  option_map drop_comments (lex_tab infix (lead2 ++ render items2)).
Proof. exact (layout_invariance_comments_any is_letter_tab is_number_tab eq_refl eq_refl). Qed.

(* non-vacuity: infix source with the glued `!ident` spelling (outside wf_items), a directive comment, a string list *)
Definition isrc : str := ss ";;;; optimize: false
 x > 1 &&  !y ||( !z && in( s ,[""a b"" ""(c""] ))  ; end  ".
Example C14_ex_infix :
  exists toks, lex_tab true isrc = Some toks /\ length toks = 23%nat /\
    In (KIdent (ss "!")) toks /\ ~ In (KIdent (ss "!y")) toks /\
    lex_tab true (indent_by_parens isrc) = Some (trim_last toks) /\ trim_last toks <> toks /\
    lex_tab false isrc = None /\ lex_tab false (indent_by_parens isrc) = None.
Proof.
  eexists. split; [vm_compute; reflexivity|]. split; [reflexivity|]. split; [vm_compute; tauto|]. split; [vm_compute; intuition discriminate|].
  split; [vm_compute; reflexivity|]. split; [vm_compute; discriminate|]. split; vm_compute; reflexivity.
Qed.

(* non-vacuity: the same tokens under three layouts, with a string containing every delimiter *)
Definition toks : list tok := [KLParen; KIdent (ss "="); KStr (ss "a (b); c
"); KIdent (ss "x.y"); KRParen].
Example C14_ex :
  lex_tab false (ss "(= ""a (b); c
"" x.y)") = Some toks /\
  lex_tab false (ss "(=	""a (b); c
""x.y  )") = Some toks /\
  lex_tab false (ss "(=""a (b); c
""x.y  )") = None /\
  option_map drop_comments (lex_tab false (ss " (  = ; note (
   ""a (b); c
""
 x.y)")) = Some toks.
Proof. vm_compute. repeat split. Qed.

(* the formatter on a source with a comment, a string holding every delimiter, nested parentheses *)
Definition src : str := ss "  (and ;; why (
  (= ""a (b); c"" x.y)   ( in n (1 2   3) ) ) ; end   ".
Example C14_ex_indent :
  exists toks, lex_tab false src = Some toks /\ length toks = 19%nat /\
    lex_tab false (indent_by_parens src) = Some (trim_last toks) /\ indent_by_parens src <> src.
Proof. eexists. split; [vm_compute; reflexivity|split; [reflexivity|split; [vm_compute; reflexivity|vm_compute; discriminate]]]. Qed.

Print Assumptions C14_lex_render.
Print Assumptions C14_indent_tokens.
Print Assumptions C14_indent_parse.
Print Assumptions C14_indent_statement.
Print Assumptions C14_indent_any.
Print Assumptions C14_indent_parse_any.
Print Assumptions C14_comments_invariance_any.
Print Assumptions C14_layout_invariance.
Print Assumptions C14_comments_invariance.
