#!/bin/sh
# usage: run.sh <property> quick|thorough   — rebuilds the harness against /repo's working tree, then runs the check
export GOFLAGS=-mod=mod GOPROXY=off GOSUMDB=off GOTOOLCHAIN=local CARGO_NET_OFFLINE=true PIP_NO_INDEX=1
cd /verif || exit 2
mkdir -p _build/bin
[ -x _build/bin/translator ] || (cd translator && go build -o ../_build/bin/translator .) || { echo "INFRASTRUCTURE: translator build failed"; exit 2; }
(cd harness && cp /repo/go.sum . 2>/dev/null; go build -tags verif -o ../_build/bin/check .) || { echo "INFRASTRUCTURE: harness does not build against /repo"; exit 2; }
case "$1" in C07|C08) (cd harness && go build -race -tags verif -o ../_build/bin/check_race .) || { echo "INFRASTRUCTURE: race-enabled harness does not build"; exit 2; };; esac
exec _build/bin/check "$@"
