package main

import (
	"encoding/json"
	"errors"
	"fmt"
	"os"
	"os/exec"
	"path/filepath"
	"regexp"
	"sort"
	"strconv"
	"strings"
	"sync"
	"time"

	eval "github.com/onheap/eval"
)

const verifDir = "/verif"

var (
	coqDir   = filepath.Join(verifDir, "coq")
	buildDir = filepath.Join(verifDir, "_build")
)

// ---------- deterministic PRNG (splitmix64) ----------

type Rand struct{ s uint64 }

func NewRand(seed uint64) *Rand { return &Rand{s: seed*0x9E3779B97F4A7C15 + 0x1234567} }
func (r *Rand) U64() uint64 {
	r.s += 0x9E3779B97F4A7C15
	z := r.s
	z = (z ^ (z >> 30)) * 0xBF58476D1CE4E5B9
	z = (z ^ (z >> 27)) * 0x94D049BB133111EB
	return z ^ (z >> 31)
}
func (r *Rand) Intn(n int) int {
	if n <= 0 {
		return 0
	}
	return int(r.U64() % uint64(n))
}
func (r *Rand) Bool() bool        { return r.U64()&1 == 1 }
func (r *Rand) Chance(p int) bool { return r.Intn(100) < p }
func (r *Rand) Fork() *Rand       { return NewRand(r.U64()) }

// ---------- Coq term printing ----------

func coqZ(z int64) string {
	if z < 0 {
		return "(" + strconv.FormatInt(z, 10) + ")"
	}
	return strconv.FormatInt(z, 10)
}

// a Go string as Coq `str` (list of code points)
func coqStr(s string) string {
	simple := true
	for _, r := range s {
		if r < 32 || r > 126 || r == '"' {
			simple = false
			break
		}
	}
	if simple && len(s) > 0 {
		return `(ss "` + s + `")`
	}
	rs := []rune(s)
	if len(rs) == 0 {
		return "(@nil N)"
	}
	parts := make([]string, len(rs))
	for i, r := range rs {
		parts[i] = strconv.Itoa(int(r))
	}
	return "[" + strings.Join(parts, ";") + "]%N"
}

func coqList(items []string) string {
	if len(items) == 0 {
		return "[]"
	}
	return "[" + strings.Join(items, "; ") + "]"
}

func coqZList(l []int64) string {
	it := make([]string, len(l))
	for i, z := range l {
		it[i] = coqZ(z)
	}
	return coqList(it)
}

func coqStrList(l []string) string {
	it := make([]string, len(l))
	for i, s := range l {
		it[i] = coqStr(s)
	}
	return coqList(it)
}

// Opaque is a value of a type the engine does not know
type Opaque struct{ ID int }

func coqValue(v interface{}) string {
	switch x := v.(type) {
	case nil:
		return "VNil"
	case int64:
		return "VInt " + coqZ(x)
	case bool:
		if x {
			return "VBool true"
		}
		return "VBool false"
	case string:
		return "VStr " + coqStr(x)
	case []int64:
		return "VIntL " + coqZList(x)
	case []string:
		return "VStrL " + coqStrList(x)
	case map[int64]struct{}:
		ks := make([]int64, 0, len(x))
		for k := range x {
			ks = append(ks, k)
		}
		sort.Slice(ks, func(i, j int) bool { return ks[i] < ks[j] })
		return "VIntSet " + coqZList(ks)
	case map[string]struct{}:
		ks := make([]string, 0, len(x))
		for k := range x {
			ks = append(ks, k)
		}
		sort.Strings(ks)
		return "VStrSet " + coqStrList(ks)
	case Opaque:
		return fmt.Sprintf("VOpaque %d", x.ID)
	case int:
		// a plain Go int (a ConstantMap value the caller did not write as int64) is NOT an integer of the engine: it
		// equals only itself and fails every typed operator - an opaque value
		return fmt.Sprintf("VOpaque %d", 1000000+x)
	default:
		if v == eval.DNE {
			return "VDNE"
		}
		return "VOpaque 999999"
	}
}

func coqValues(vs []interface{}) string {
	it := make([]string, len(vs))
	for i, v := range vs {
		it[i] = coqValue(v)
	}
	return coqList(it)
}

// ---------- error canonicalisation ----------

type UserErr struct{ ID int }

func (u *UserErr) Error() string { return fmt.Sprintf("user error %d", u.ID) }

var userErrs = func() []*UserErr {
	r := make([]*UserErr, 16)
	for i := range r {
		r[i] = &UserErr{ID: i}
	}
	return r
}()

// The error kinds (count / type / execution / non-boolean condition / unbound variable) are recognised by the
// text the library's OWN error constructors produce on the current tree, probed at start-up, so that rewording a
// message is not mistaken for a change of behaviour; the literal patterns below are the fall-back when a probe fails.
var (
	reCount   = regexp.MustCompile(`^unexpected params count, operator: (.*), expected: -?\d+, got: -?\d+$`)
	reType    = regexp.MustCompile(`(?s)^unexpected param type, operator: (.*?), expected: `)
	reExec    = regexp.MustCompile(`(?s)^operator execuation error, operator: (.*?), error: `)
	reCond    = regexp.MustCompile(`(?s)^condition node returns a non bool result`)
	reUnbound = regexp.MustCompile(`(?s)^variableKey not exist (.*)$`)
)

func commonPrefix(a, b string) string {
	n := 0
	for n < len(a) && n < len(b) && a[n] == b[n] {
		n++
	}
	return a[:n]
}

func calibrateErrors() {
	defer func() { recover() }()
	const m1, m2 = "\x01OPNAME\x01", "\x02DETAIL\x02"
	if m := eval.ParamsCountError(m1, 7101, 9302).Error(); strings.Count(m, m1) == 1 {
		i := strings.Index(m, m1)
		post := regexp.QuoteMeta(m[i+len(m1):])
		post = strings.Replace(strings.Replace(post, "7101", `-?\d+`, 1), "9302", `-?\d+`, 1)
		if re, err := regexp.Compile(`(?s)^` + regexp.QuoteMeta(m[:i]) + `(.*)` + post + `$`); err == nil {
			reCount = re
		}
	}
	if m := eval.ParamTypeError(m1, m2, int64(5)).Error(); strings.Count(m, m1) == 1 && strings.Count(m, m2) == 1 {
		i, j := strings.Index(m, m1), strings.Index(m, m2)
		if i < j && j > i+len(m1) {
			if re, err := regexp.Compile(`(?s)^` + regexp.QuoteMeta(m[:i]) + `(.*?)` + regexp.QuoteMeta(m[i+len(m1):j])); err == nil {
				reType = re
			}
		}
	}
	if m := eval.OpExecError(m1, errors.New(m2)).Error(); strings.Count(m, m1) == 1 && strings.Count(m, m2) == 1 {
		i, j := strings.Index(m, m1), strings.Index(m, m2)
		if i < j && j > i+len(m1) {
			if re, err := regexp.Compile(`(?s)^` + regexp.QuoteMeta(m[:i]) + `(.*?)` + regexp.QuoteMeta(m[i+len(m1):j])); err == nil {
				reExec = re
			}
		}
	}
	if _, err := (eval.MapVarFetcher{}).Get(0, m1); err != nil {
		if m := err.Error(); strings.Count(m, m1) == 1 && strings.HasSuffix(m, m1) && len(m) > len(m1)+4 {
			if re, err := regexp.Compile(`(?s)^` + regexp.QuoteMeta(m[:len(m)-len(m1)]) + `(.*)$`); err == nil {
				reUnbound = re
			}
		}
	}
	// the operand limit: 128 and 129 operands
	wide := func(n int) string {
		conf := eval.NewConfig(eval.Optimizations(false))
		_, err := eval.Compile(conf, "(and"+strings.Repeat(" true", n)+")")
		if err == nil {
			return ""
		}
		return err.Error()
	}
	if a, b := wide(128), wide(129); a != "" && b != "" && a != b {
		cp := strings.TrimRight(commonPrefix(a, b), "0123456789[( ")
		if len(cp) >= 12 && !strings.Contains(cp, "32767") {
			operandLimitPrefix = cp
		}
	}
	// a condition that is not a boolean: two probes, the common prefix of the two messages
	probe := func(src string) string {
		conf := eval.NewConfig(eval.Optimizations(false))
		e, err := eval.Compile(conf, src)
		if err != nil {
			return ""
		}
		_, err = e.Eval(eval.NewCtxFromVars(conf, map[string]interface{}{}))
		if err == nil {
			return ""
		}
		return err.Error()
	}
	a, b := probe("(if (+ 1 1) 1 2)"), probe("(if (+ 1 2) 1 2)")
	if cp := commonPrefix(a, b); a != "" && b != "" && a != b && len(cp) >= 12 && !reCount.MatchString(a) && !reType.MatchString(a) && !reExec.MatchString(a) {
		if re, err := regexp.Compile(`(?s)^` + regexp.QuoteMeta(cp)); err == nil {
			reCond = re
		}
	}
}

func coqErr(err error) string {
	var ue *UserErr
	if errors.As(err, &ue) {
		return fmt.Sprintf("EUser %d", ue.ID)
	}
	msg := err.Error()
	if m := reCount.FindStringSubmatch(msg); m != nil {
		return "ECount " + coqStr(m[1])
	}
	if m := reType.FindStringSubmatch(msg); m != nil {
		return "EType " + coqStr(m[1])
	}
	if m := reExec.FindStringSubmatch(msg); m != nil {
		return "EExec " + coqStr(m[1])
	}
	if reCond.MatchString(msg) {
		return "ECondNotBool"
	}
	if m := reUnbound.FindStringSubmatch(msg); m != nil {
		return "EUnbound " + coqStr(m[1])
	}
	return "EOther 0"
}

func coqRes(v interface{}, err error) string {
	if err != nil {
		return "Err (" + coqErr(err) + ")"
	}
	return "Ok (" + coqValue(v) + ")"
}

// ---------- cases, shards, coqc ----------

type Case struct {
	Term       string      // Coq term of the case (input and observed output)
	Sample     interface{} // human readable form for evidence / replay
	Key        string      // distinctness key
	Nontrivial bool
	Tags       []string // distribution histogram
}

type Batch struct {
	Prop     string
	Name     string   // batch name (file stem)
	Imports  string   // Require Import line
	CaseType string   // Coq type of one case
	ChkFn    string   // Coq function case -> bool (or case -> list N when Codes is set)
	Codes    bool     // ChkFn returns the codes of the comparisons that failed
	Shard    int      // cases per coqc invocation (0: default)
	OutFn    string   // Coq function case -> model output (for diagnostics)
	Cases    []Case
}

type Mismatch struct {
	Batch    string      `json:"correspondence"`
	Index    int         `json:"index"`
	Sample   interface{} `json:"case"`
	CoqCase  string      `json:"coq_case"`
	ModelOut string      `json:"model_output"`
	Codes    []int       `json:"failed_comparisons,omitempty"`
}

var coqFlags = []string{"-Q", "Model", "", "-Q", "Generated", "", "-Q", "Proofs", "", "-Q", "Properties", "", "-Q", "Corr", "",
	"-w", "-notation-overridden,-ambiguous-paths"}

func coqDirFor(ref bool) string {
	if ref {
		return filepath.Join(buildDir, "refcoq")
	}
	return coqDir
}

func runCoqc(dir string, file string, timeout time.Duration) (string, error) {
	args := append([]string{}, coqFlags...)
	args = append(args, file)
	cmd := exec.Command("timeout", append([]string{fmt.Sprint(int(timeout.Seconds())), "coqc"}, args...)...)
	cmd.Dir = dir
	out, err := cmd.CombinedOutput()
	return string(out), err
}

var reM = regexp.MustCompile(`(?s)M\s*=\s*\[(.*?)\]`)
var rePair = regexp.MustCompile(`(?s)\((\d+)%nat,\s*\[([^\]]*)\]\)`)
var reNum = regexp.MustCompile(`\d+`)
var reEmpty = regexp.MustCompile(`(?s)^M\s*=\s*\[\s*\]`)

func m1(m []string) string {
	if m == nil {
		return ""
	}
	return m[1]
}

const shardSize = 400

// RunBatch evaluates the batch inside Coq (vm_compute) and returns the mismatching cases.
func RunBatch(b *Batch, useRef bool) ([]Mismatch, error) {
	dir := coqDirFor(useRef)
	work := filepath.Join(buildDir, "cases", b.Prop)
	os.MkdirAll(work, 0o755)
	n := len(b.Cases)
	shardSize := shardSize
	if b.Shard > 0 {
		shardSize = b.Shard
	}
	nsh := (n + shardSize - 1) / shardSize
	type shardRes struct {
		idx   []int
		codes [][]int
		err   error
	}
	results := make([]shardRes, nsh)
	var wg sync.WaitGroup
	sem := make(chan struct{}, 16)
	for s := 0; s < nsh; s++ {
		wg.Add(1)
		go func(s int) {
			defer wg.Done()
			sem <- struct{}{}
			defer func() { <-sem }()
			lo, hi := s*shardSize, (s+1)*shardSize
			if hi > n {
				hi = n
			}
			var sb strings.Builder
			sb.WriteString(b.Imports + "\nRequire Import Harness.\nOpen Scope Z_scope.\n")
			fmt.Fprintf(&sb, "Definition cases : list (nat * (%s)) := [\n", b.CaseType)
			for i := lo; i < hi; i++ {
				sep := ";"
				if i == hi-1 {
					sep = ""
				}
				fmt.Fprintf(&sb, " (%d%%nat, %s)%s\n", i, b.Cases[i].Term, sep)
			}
			sb.WriteString("].\n")
			if b.Codes {
				fmt.Fprintf(&sb, "Definition M := Eval vm_compute in failures %s cases.\nPrint M.\n", b.ChkFn)
			} else {
				fmt.Fprintf(&sb, "Definition M := Eval vm_compute in mismatches %s cases.\nPrint M.\n", b.ChkFn)
			}
			stem := fmt.Sprintf("%s_%s_%d", b.Prop, b.Name, s)
			f := filepath.Join(work, stem+".v")
			os.WriteFile(f, []byte(sb.String()), 0o644)
			out, err := runCoqc(dir, f, 20*time.Minute)
			if err != nil {
				results[s].err = fmt.Errorf("coqc failed on %s: %v\n%s", f, err, tail(out, 2000))
				return
			}
			if b.Codes {
				mi := strings.Index(out, "M =")
				if mi < 0 {
					results[s].err = fmt.Errorf("cannot parse coqc output for %s: %s", f, tail(out, 500))
					return
				}
				for _, pm := range rePair.FindAllStringSubmatch(out[mi:], -1) {
					k, _ := strconv.Atoi(pm[1])
					var cs []int
					for _, c := range reNum.FindAllString(pm[2], -1) {
						x, _ := strconv.Atoi(c)
						cs = append(cs, x)
					}
					results[s].idx = append(results[s].idx, k)
					results[s].codes = append(results[s].codes, cs)
				}
				if len(results[s].idx) == 0 && !reEmpty.MatchString(out[mi:]) {
					results[s].err = fmt.Errorf("cannot parse coqc output for %s: %s", f, tail(out, 500))
					return
				}
			}
			m := reM.FindStringSubmatch(out)
			if !b.Codes && m == nil {
				results[s].err = fmt.Errorf("cannot parse coqc output for %s: %s", f, tail(out, 500))
				return
			}
			for _, t := range strings.Split(m1(m), ";") {
				if b.Codes {
					break
				}
				t = strings.TrimSpace(strings.TrimSuffix(strings.TrimSpace(t), "%nat"))
				if t == "" {
					continue
				}
				k, e := strconv.Atoi(t)
				if e != nil {
					results[s].err = fmt.Errorf("bad index %q in coqc output", t)
					return
				}
				results[s].idx = append(results[s].idx, k)
			}
			// clean the artefacts of passing shards
			if len(results[s].idx) == 0 {
				for _, ext := range []string{".v", ".vo", ".vok", ".vos", ".glob"} {
					os.Remove(filepath.Join(work, stem+ext))
				}
				os.Remove(filepath.Join(work, "."+stem+".aux"))
			}
		}(s)
	}
	wg.Wait()
	var mm []Mismatch
	for _, r := range results {
		if r.err != nil {
			return nil, r.err
		}
		for j, k := range r.idx {
			m := Mismatch{Batch: b.Name, Index: k, Sample: b.Cases[k].Sample, CoqCase: b.Cases[k].Term}
			if j < len(r.codes) {
				m.Codes = r.codes[j]
			}
			mm = append(mm, m)
		}
	}
	// model output for (a few of) the mismatches
	for i := range mm {
		if i >= 5 || b.OutFn == "" {
			break
		}
		var sb strings.Builder
		sb.WriteString(b.Imports + "\nOpen Scope Z_scope.\n")
		fmt.Fprintf(&sb, "Definition c : %s := %s.\nEval vm_compute in %s c.\n", b.CaseType, mm[i].CoqCase, b.OutFn)
		f := filepath.Join(work, fmt.Sprintf("%s_%s_diag%d.v", b.Prop, b.Name, i))
		os.WriteFile(f, []byte(sb.String()), 0o644)
		out, _ := runCoqc(dir, f, 5*time.Minute)
		mm[i].ModelOut = strings.TrimSpace(out)
	}
	return mm, nil
}

func tail(s string, n int) string {
	if len(s) > n {
		return s[len(s)-n:]
	}
	return s
}

// ---------- evidence ----------

// ---------- hang watchdog ----------
// Every call into the library that the properties require to return (Compile, Eval, TryEval, Dump, the operators)
// is made through guarded(); if one call does not return within wdLimit the run ends with a violation whose replay
// is the case that was being evaluated (a spinning goroutine cannot be stopped, so the process exits).
var (
	wdMu    sync.Mutex
	wdStart time.Time
	wdDesc  interface{}
	wdLimit = 30 * time.Second
)

func guarded(desc interface{}, f func()) {
	wdMu.Lock()
	wdStart, wdDesc = time.Now(), desc
	wdMu.Unlock()
	defer func() {
		wdMu.Lock()
		wdStart = time.Time{}
		wdMu.Unlock()
	}()
	f()
}

func startWatchdog(prop, tier string, seed int64, begun time.Time) {
	go func() {
		for {
			time.Sleep(500 * time.Millisecond)
			wdMu.Lock()
			s, d := wdStart, wdDesc
			wdMu.Unlock()
			if s.IsZero() || time.Since(s) < wdLimit {
				continue
			}
			what := fmt.Sprintf("a call into the library did not return within %v (it is still running): the property requires a result or an error", wdLimit)
			path := filepath.Join(buildDir, "replay", prop+"-hang.json")
			writeJSON(path, map[string]interface{}{"property": prop, "what": what, "signature": "hang", "detail": d, "seed": seed, "tier": tier})
			writeJSON(filepath.Join(verifDir, "evidence", prop+".json"), Evidence{PropertyID: prop, Tier: tier, Seed: seed, Level: "proof",
				Coverage: map[string]interface{}{"obligations": 0, "discharged": 0, "evaluations": 0, "distinct_nontrivial": 0,
					"rule": "run aborted: " + what, "samples": []interface{}{d}},
				WallS: time.Since(begun).Seconds(), Violations: 1})
			fmt.Printf("VIOLATION property=%s replay=%s\n", prop, path)
			os.Exit(1)
		}
	}()
}

type Evidence struct {
	PropertyID  string                 `json:"property_id"`
	Tier        string                 `json:"tier"`
	Seed        int64                  `json:"seed"`
	Level       string                 `json:"level"`
	Coverage    map[string]interface{} `json:"coverage"`
	Assumptions []string               `json:"assumptions"`
	WallS       float64                `json:"wall_s"`
	Violations  int                    `json:"violations"`
}

func writeJSON(path string, v interface{}) {
	b, _ := json.MarshalIndent(v, "", " ")
	os.MkdirAll(filepath.Dir(path), 0o755)
	os.WriteFile(path, b, 0o644)
}
