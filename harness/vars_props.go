package main

import (
	"strings"
	"fmt"
	"sort"
	"time"

	eval "github.com/onheap/eval"
)

const varsImports = "Require Import Base Tables Vars VarsCorr."

// a value with a Go dynamic type and its Coq `goval`
type dynVal struct {
	go_ interface{}
	coq string
}

func randDyn(r *Rand) dynVal {
	small := int64(r.Intn(200)) - 100
	if r.Intn(12) == 0 {
		return dynVal{nil, "GNil"} // a variable bound to nil (a JSON null): it IS bound, whatever the key layout
	}
	switch r.Intn(17) {
	case 0:
		return dynVal{int(small), "GInt " + coqZ(small)}
	case 1:
		return dynVal{int8(small), "GInt8 " + coqZ(small)}
	case 2:
		return dynVal{int16(small * 100), "GInt16 " + coqZ(small*100)}
	case 3:
		return dynVal{int32(small * 100000), "GInt32 " + coqZ(small*100000)}
	case 4:
		z := randInt(r)
		return dynVal{z, "GInt64 " + coqZ(z)}
	case 5:
		u := uint8(r.Intn(256))
		return dynVal{u, "GUint8 " + coqZ(int64(u))}
	case 6:
		u := uint16(r.Intn(65536))
		return dynVal{u, "GUint16 " + coqZ(int64(u))}
	case 7:
		u := uint32(r.U64())
		return dynVal{u, "GUint32 " + coqZ(int64(u))}
	case 8:
		u := r.U64()
		if r.Bool() {
			u |= 1 << 63
		}
		return dynVal{u, fmt.Sprintf("GUint64 %d", u)}
	case 9:
		b := r.Bool()
		return dynVal{b, "GBool " + coqBool(b)}
	case 10:
		s := randStr(r)
		return dynVal{s, "GStr " + coqStr(s)}
	case 11:
		l := []int{int(small), 3, -4}
		return dynVal{l, "GInts " + coqZList([]int64{small, 3, -4})}
	case 12:
		l := []int32{int32(small), 7}
		return dynVal{l, "GInt32s " + coqZList([]int64{small, 7})}
	case 13:
		l := []int64{small, 1 << 40}
		return dynVal{l, "GInt64s " + coqZList(l)}
	case 14:
		l := []string{"a", randStr(r)}
		return dynVal{l, "GStrs " + coqStrList(l)}
	case 15:
		sec := int64(r.Intn(2000000000)) - 500000000
		return dynVal{time.Unix(sec, int64(r.Intn(1000000000))).UTC(), "GTime " + coqZ(sec)}
	default:
		ns := int64(r.U64()>>uint(1+r.Intn(30))) - int64(r.Intn(5000000000))
		return dynVal{time.Duration(ns), "GDuration " + coqZ(ns)}
	}
}

func kmCoq(m []struct {
	n string
	k int16
}) string {
	it := make([]string, len(m))
	for i, e := range m {
		it[i] = fmt.Sprintf("(%s, %s)", coqStr(e.n), coqZ(int64(e.k)))
	}
	return coqList(it)
}

type nk = struct {
	n string
	k int16
}

func init() {
	register(&PropDef{
		ID:   "C11",
		Rule: "registration histories: a pre-populated VariableKeyMap with distinct keys (negative, 0, around 255/256, gaps just below the size, sparse up to 32000) followed by GetOrRegisterKey calls in random order (or RegVarAndOp, or undefined-variable mode), bindings of every Go dynamic type the property lists (int, int8..int32, uint8..uint64 incl. >= 2^63, []int, []int32, time.Time, Duration, ...), then Eval of every bound variable through NewCtxFromVars; compared: keys returned (with the model's), final map (no key twice, nothing reassigned), the value each variable reads (unify of the bound value, under the fetcher the model's NewCtxFromVars picks); non-trivial = at least one registration into a non-empty map; distinct = distinct histories",
		Assumptions: []string{"RegVarAndOp registers in Go's map iteration order: for those histories only the invariants and the reads are compared, not the exact keys"},
		Behav:       []int{11, 13}, Fidelity: []int{12}, CodeText: map[int]string{11: "a key is assigned to two names or an existing assignment changed", 12: "keys differ from the model's first-free-key rule", 13: "a variable does not evaluate to the normalised value bound to its name"},
		Gen: func(c *RunCtx) []*Batch {
			r := c.R
			b := &Batch{Prop: "C11", Name: "vars", Imports: varsImports, CaseType: "vcase", ChkFn: "chk_vars", OutFn: "diag_vars", Codes: true}
			n := c.N(2400, 40000)
			oneShotKeys(c)
			for k := 0; k < n; k++ {
				conf := eval.NewConfig()
				conf.OperatorMap["c_id"] = func(_ *eval.Ctx, p []eval.Value) (eval.Value, error) { return p[0], nil }
				conf.OperatorMap["c_pair"] = func(_ *eval.Ctx, p []eval.Value) (eval.Value, error) {
					return fmt.Sprintf("[%v/<nil> %v/<nil>]", p[0], p[1]), nil
				}
				// pre-populated map
				var pre []nk
				used := map[int16]bool{}
				npre := r.Intn(7)
				layout := r.Intn(6)
				for i := 0; i < npre; i++ {
					var key int16
					for tries := 0; tries < 50; tries++ {
						switch layout {
						case 0: // dense from 1 with one gap
							key = int16(1 + r.Intn(npre+2))
						case 1: // around the slice limit
							key = int16(250 + r.Intn(10))
						case 2: // from zero
							key = int16(r.Intn(npre + 1))
						case 3: // negative / sparse
							key = int16(r.Intn(400) - 200)
						case 4:
							key = int16(r.Intn(32000))
						default:
							key = int16(1 + i) // contiguous
							if i == npre-1 && r.Bool() {
								key++ // the layout {1..n-1, n+1}
							}
						}
						if !used[key] {
							break
						}
					}
					if used[key] {
						continue
					}
					used[key] = true
					name := fmt.Sprintf("p%d", i)
					pre = append(pre, nk{name, key})
					conf.VariableKeyMap[name] = eval.VariableKey(key)
				}
				undefined := r.Intn(8) == 0
				if undefined {
					conf.CompileOptions[eval.AllowUndefinedVariable] = true
				}
				// registrations
				nreg := r.Intn(6)
				var names []string
				for i := 0; i < nreg; i++ {
					if len(pre) > 0 && r.Intn(4) == 0 {
						names = append(names, pre[r.Intn(len(pre))].n) // a known name
					} else {
						names = append(names, fmt.Sprintf("v%d", r.Intn(nreg+1)))
					}
				}
				exact := true
				var keys []int64
				vals := map[string]interface{}{}
				bindCoq := []string{}
				bound := map[string]dynVal{}
				if r.Intn(5) == 0 && !undefined {
					// RegVarAndOp: order unknown
					exact = false
					m := map[string]interface{}{}
					for _, nme := range names {
						m[nme] = 1
					}
					eval.RegVarAndOp(m)(conf)
					names = nil
				} else if !undefined {
					for _, nme := range names {
						keys = append(keys, int64(eval.GetOrRegisterKey(conf, nme)))
					}
				} else {
					names = nil
				}
				var final []nk
				for nme, key := range conf.VariableKeyMap {
					final = append(final, nk{nme, int16(key)})
				}
				sort.Slice(final, func(i, j int) bool { return final[i].n < final[j].n })
				// bindings: most registered names, maybe an unregistered one in undefined mode
				var all []string
				for _, e := range final {
					all = append(all, e.n)
				}
				if undefined {
					all = append(all, "u1", "u2")
				}
				for _, nme := range all {
					if r.Intn(5) == 0 {
						continue
					}
					dv := randDyn(r)
					vals[nme] = dv.go_
					bound[nme] = dv
				}
				// names in the supplied map that are not variables of the configuration (operators or unused values
				// passed along, as RegVarAndOp-style callers do): they must not disturb any registered variable
				for j, nx := 0, r.Intn(7); j < nx; j++ {
					vals[fmt.Sprintf("zz_extra%d", j)] = int64(1000 + j)
				}
				var bnames []string
				for nme := range bound {
					bnames = append(bnames, nme)
				}
				sort.Strings(bnames)
				for _, nme := range bnames {
					bindCoq = append(bindCoq, fmt.Sprintf("(%s, %s)", coqStr(nme), bound[nme].coq))
				}
				// reads
				var reads []string
				single := map[string]string{}
				var ctx *eval.Ctx
				var cpan interface{}
				guarded(map[string]interface{}{"call": "NewCtxFromVars", "key_map": fmt.Sprint(conf.VariableKeyMap), "values": fmt.Sprint(vals)}, func() {
					defer func() { cpan = recover() }()
					ctx = eval.NewCtxFromVars(conf, vals)
				})
				if cpan != nil || ctx == nil {
					c.Direct = append(c.Direct, DirectViolation{What: fmt.Sprintf("NewCtxFromVars panicked: %v", cpan), Sig: "c11-ctx-panic",
						Sample: map[string]interface{}{"key_map": fmt.Sprint(conf.VariableKeyMap), "values": fmt.Sprint(vals)}})
					continue
				}
				for _, nme := range bnames {
					e, err, pan := compileSafe(conf, "(c_id "+nme+")")
					if pan != nil || err != nil {
						c.Notes = append(c.Notes, fmt.Sprintf("compile of (c_id %s): %v %v", nme, err, pan))
						continue
					}
					var v eval.Value
					var er error
					guarded(map[string]interface{}{"call": "Eval", "variable": nme}, func() {
						defer func() {
							if p := recover(); p != nil {
								er = fmt.Errorf("panic: %v", p)
							}
						}()
						v, er = e.Eval(ctx)
					})
					reads = append(reads, fmt.Sprintf("(%s, %s)", coqStr(nme), coqRes(v, er)))
					single[nme] = fmt.Sprintf("%v/%v", v, er)
				}
				// two variables read by ONE two-operand operator (a fast operator under the default optimisations):
				// each operand must be the value its own name is bound to, in every key layout and in undefined mode
				for j := 0; j+1 < len(bnames) && j < 6; j++ {
					a, bn := bnames[j], bnames[j+1]
					e, err, pan := compileSafe(conf, "(c_pair "+a+" "+bn+")")
					if pan != nil || err != nil {
						continue
					}
					var v eval.Value
					var er error
					guarded(map[string]interface{}{"call": "Eval", "variables": a + " " + bn}, func() {
						defer func() {
							if p := recover(); p != nil {
								er = fmt.Errorf("panic: %v", p)
							}
						}()
						v, er = e.Eval(ctx)
					})
					want := "[" + single[a] + " " + single[bn] + "]/<nil>"
					if got := fmt.Sprintf("%v/%v", v, er); got != want && !strings.Contains(single[a]+single[bn], "/variableKey") {
						c.Direct = append(c.Direct, DirectViolation{What: "two variables read by one two-operand operator do not have the values each of them has when read alone", Sig: "c11-pair",
							Sample: map[string]interface{}{"expression": "(c_pair " + a + " " + bn + ")", "got": got, "each_alone": want, "key_map": fmt.Sprint(conf.VariableKeyMap), "undefined_mode": undefined}})
					}
				}
				term := fmt.Sprintf("{| vc_pre := %s; vc_names := %s; vc_keys := %s; vc_exact := %s; vc_final := %s; vc_undefined := %s; vc_bind := %s; vc_reads := %s |}",
					kmCoq(pre), coqStrList(names), coqZList(keys), coqBool(exact), kmCoq(final), coqBool(undefined), coqList(bindCoq), coqList(reads))
				tags := []string{fmt.Sprintf("layout:%d", layout), fmt.Sprintf("fetcher:%T", ctx.VariableFetcher)}
				if undefined {
					tags = append(tags, "undefined-mode")
				}
				if !exact {
					tags = append(tags, "RegVarAndOp")
				}
				b.Cases = append(b.Cases, Case{Term: term, Key: term, Nontrivial: len(pre) > 0 && (len(names) > 0 || !exact), Tags: tags,
					Sample: map[string]interface{}{"pre": fmt.Sprint(pre), "register": names, "keys": keys, "final": fmt.Sprint(final), "reads": len(reads)}})
			}
			return []*Batch{b}
		},
	})
}

// oneShotKeys: the one-shot helper Eval(source, values, options...) with a configuration whose key map the caller
// chose (ExtendConf): every variable of the expression reads the value bound to ITS name, whatever other names the
// value map carries and in whatever order Go iterates it (repeated: the helper builds a fresh key map per call).
func oneShotKeys(c *RunCtx) {
	r := c.R
	for rep := 0; rep < c.N(60, 2000); rep++ {
		names := []string{"a", "b", "c", "d", "e"}[:3+r.Intn(3)]
		cc := eval.NewConfig()
		for i, n := range names {
			cc.VariableKeyMap[n] = eval.VariableKey(i + 1)
		}
		vals := map[string]interface{}{}
		for i, n := range names {
			vals[n] = int64(10*(i+1) + r.Intn(5))
		}
		// names the expression does not mention and the configuration does not know
		for i := 0; i < 1+r.Intn(4); i++ {
			vals[fmt.Sprintf("extra%d", i)] = int64(100 + i)
		}
		for _, n := range names {
			src := "(+ " + n + " 0)"
			var got string
			guarded(map[string]interface{}{"call": "Eval(source, values, ExtendConf)", "source": src}, func() {
				defer func() {
					if p := recover(); p != nil {
						got = fmt.Sprintf("panic: %v", p)
					}
				}()
				v, err := eval.Eval(src, vals, eval.ExtendConf(cc))
				if err != nil {
					got = "error: " + err.Error()
				} else {
					got = fmt.Sprintf("%T %v", v, v)
				}
			})
			c.ExploreEvals++
			if want := fmt.Sprintf("int64 %v", vals[n]); got != want {
				c.Direct = append(c.Direct, DirectViolation{What: "one-shot Eval with a caller-chosen key map: a variable does not read the value bound to its name", Sig: "c11-one-shot",
					Sample: map[string]interface{}{"source": src, "key_map": fmt.Sprint(cc.VariableKeyMap), "values": fmt.Sprint(vals), "got": got, "want": want}})
				return
			}
		}
	}
	c.ExploreHist["one-shot-helper"]++
}
