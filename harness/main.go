package main

import (
	"runtime/debug"
	"encoding/json"
	"fmt"
	"os"
	"os/exec"
	"path/filepath"
	"regexp"
	"sort"
	"strconv"
	"strings"
	"syscall"
	"time"
)

type RunCtx struct {
	Prop   string
	Tier   string
	Seed   int64
	R      *Rand
	Thor   bool
	Notes  []string
	Extra  map[string]interface{} // extra coverage keys
	Direct []DirectViolation      // violations found by direct (non-Coq) property oracles
	// direct (non-Coq) exploration done by the generator itself
	ExploreEvals, ExploreDistinct int
	ExploreSamples                []interface{}
	ExploreHist                   map[string]int
}

// N picks the case count for the tier
func (c *RunCtx) N(quick, thorough int) int {
	if c.Thor {
		return thorough
	}
	return quick
}

type DirectViolation struct {
	What   string      `json:"what"`
	Sig    string      `json:"signature"`
	Sample interface{} `json:"case"`
}

type PropDef struct {
	ID          string
	Gen         func(c *RunCtx) []*Batch
	Assumptions []string
	Rule        string
	// for code-returning correspondences: which failed comparisons contradict the property on the case's input
	// (Behav), which only break the tie between model and code (Fidelity), and which mean "not compared" (Ignore)
	Behav    []int
	Fidelity []int
	Ignore   []int
	CodeText map[int]string
}

var props = map[string]*PropDef{}

func register(p *PropDef) { props[p.ID] = p }

type KnownFindings struct {
	Findings []struct {
		Property  string `json:"property"`
		Signature string `json:"signature"`
		What      string `json:"what"`
	} `json:"findings"`
	Fixed []string `json:"fixed"`
}

func loadKnown() KnownFindings {
	var k KnownFindings
	b, err := os.ReadFile(filepath.Join(verifDir, "known_findings.json"))
	if err == nil {
		json.Unmarshal(b, &k)
	}
	return k
}

func sh(dir string, timeoutS int, name string, args ...string) (string, error) {
	cmd := exec.Command("timeout", append([]string{fmt.Sprint(timeoutS), name}, args...)...)
	cmd.Dir = dir
	out, err := cmd.CombinedOutput()
	return string(out), err
}

var forbidden = regexp.MustCompile(`\b(Admitted|admit|Axiom|Axioms|Parameter|Parameters|Conjecture|Hypothesis|Variable|Variables|Hypotheses)\b|Unset Guard|bypass_check|type-in-type|impredicative-set|Admit Obligations`)

// scanForbidden greps the development; Variable/Hypothesis are allowed inside sections only,
// which is checked by tracking Section/End nesting.
func scanForbidden() []string {
	var hits []string
	filepath.Walk(coqDir, func(p string, info os.FileInfo, err error) error {
		if err != nil || info.IsDir() || !strings.HasSuffix(p, ".v") {
			return nil
		}
		b, _ := os.ReadFile(p)
		depth := 0
		inComment := 0
		for ln, line := range strings.Split(string(b), "\n") {
			// strip comments (nesting-aware, line granular)
			clean := ""
			for i := 0; i < len(line); i++ {
				if i+1 < len(line) && line[i] == '(' && line[i+1] == '*' {
					inComment++
					i++
					continue
				}
				if i+1 < len(line) && line[i] == '*' && line[i+1] == ')' && inComment > 0 {
					inComment--
					i++
					continue
				}
				if inComment == 0 {
					clean += string(line[i])
				}
			}
			t := strings.TrimSpace(clean)
			if strings.HasPrefix(t, "Section ") {
				depth++
			}
			if strings.HasPrefix(t, "End ") && depth > 0 {
				depth--
			}
			for _, m := range forbidden.FindAllString(clean, -1) {
				switch m {
				case "Variable", "Variables", "Hypothesis", "Hypotheses":
					if depth > 0 {
						continue
					}
				}
				hits = append(hits, fmt.Sprintf("%s:%d: %s", p, ln+1, m))
			}
		}
		return nil
	})
	return hits
}

func main() {
	if len(os.Args) < 3 {
		fmt.Fprintln(os.Stderr, "usage: check <property> quick|thorough | check --replay <file>")
		os.Exit(2)
	}
	calibrateErrors()
	if os.Args[1] == "--race-child" {
		raceChildMain(os.Args[2:])
		return
	}
	if os.Args[1] == "--replay" {
		b, err := os.ReadFile(os.Args[2])
		if err != nil {
			fmt.Fprintln(os.Stderr, err)
			os.Exit(2)
		}
		fmt.Println(string(b))
		return
	}
	id, tier := os.Args[1], os.Args[2]
	if t := os.Getenv("VERIF_TIER"); t == "quick" || t == "thorough" {
		tier = t
	}
	p, ok := props[id]
	if !ok {
		fmt.Fprintln(os.Stderr, "unknown property", id)
		os.Exit(2)
	}
	seed := int64(20260927)
	if s := os.Getenv("VERIF_SEED"); s != "" {
		if v, err := strconv.ParseInt(s, 10, 64); err == nil {
			seed = v
		}
	}
	start := time.Now()
	os.MkdirAll(buildDir, 0o755)
	// one check at a time (shared .vo tree)
	lock, err := os.OpenFile(filepath.Join(buildDir, "lock"), os.O_CREATE|os.O_RDWR, 0o644)
	if err == nil {
		syscall.Flock(int(lock.Fd()), syscall.LOCK_EX)
		defer lock.Close()
	}

	startWatchdog(id, tier, seed, start)
	ctx := &RunCtx{Prop: id, Tier: tier, Seed: seed, R: NewRand(uint64(seed) ^ hashStr(id)), Thor: tier == "thorough", Extra: map[string]interface{}{}, ExploreHist: map[string]int{}}

	// 1. regenerate the tables from /repo and rebuild the Coq development
	brokenWhy := ""
	tablesNew := filepath.Join(buildDir, "Tables.v.new")
	out, err := sh(verifDir, 120, filepath.Join(buildDir, "bin", "translator"), "/repo", tablesNew)
	useRef := false
	if err != nil {
		brokenWhy = "translator no longer recognises the source: " + strings.TrimSpace(out)
		useRef = true
	} else {
		nb, _ := os.ReadFile(tablesNew)
		ob, _ := os.ReadFile(filepath.Join(coqDir, "Generated", "Tables.v"))
		if string(nb) != string(ob) {
			os.WriteFile(filepath.Join(coqDir, "Generated", "Tables.v"), nb, 0o644)
		}
	}
	if _, err := os.Stat(filepath.Join(coqDir, "Makefile")); err != nil {
		sh(coqDir, 60, "coq_makefile", "-f", "_CoqProject", "-o", "Makefile")
	}
	propFile := "Properties/" + id + ".v"
	obligations, discharged := 0, 0
	assumptionsOut := ""
	if !useRef {
		// model and correspondence files must build; then this property's file
		mout, merr := sh(coqDir, 3000, "make", "-j16", "Properties/"+id+".vo", "corr")
		if merr != nil {
			brokenWhy = "proof obligation no longer checks: " + tail(strings.TrimSpace(mout), 1500)
			useRef = true
		} else {
			// re-check the property file itself and capture Print Assumptions
			pout, perr := runCoqc(coqDir, propFile, 10*time.Minute)
			if perr != nil {
				brokenWhy = "property file no longer checks: " + tail(strings.TrimSpace(pout), 1500)
				useRef = true
			}
			assumptionsOut = pout
			// thorough tier: the independent checker re-checks the property file and everything it depends on
			if perr == nil && tier == "thorough" {
				args := []string{"-silent", "-o"}
				for _, d := range []string{"Model", "Generated", "Proofs", "Properties", "Corr"} {
					args = append(args, "-Q", d, "")
				}
				args = append(args, id)
				cout, cerr := sh(coqDir, 2500, "coqchk", args...)
				sum := tail(strings.TrimSpace(cout), 600)
				ctx.Extra["coqchk"] = sum
				if cerr != nil || !strings.Contains(cout, "Axioms: <none>") {
					brokenWhy = "coqchk does not accept the property file: " + sum
					useRef = true
				}
			}
		}
	}
	src, _ := os.ReadFile(filepath.Join(coqDir, propFile))
	obligations = len(regexp.MustCompile(`(?m)^\s*(Theorem|Lemma|Example|Corollary)\s`).FindAllString(string(src), -1))
	if !useRef {
		discharged = obligations
	}
	if hits := scanForbidden(); len(hits) > 0 {
		brokenWhy = "forbidden construct in the development: " + strings.Join(hits, "; ")
		discharged = 0
	}
	if useRef {
		if err := buildRef(); err != nil {
			fmt.Fprintln(os.Stderr, "INFRASTRUCTURE: cannot build the reference model:", err)
			os.Exit(2)
		}
	}

	// 2. correspondence
	var batches []*Batch
	func() {
		// safety net: a panic raised inside the library while the harness was calling it outside a recover() is a
		// violation of "result or error, never a panic" (reported with the stack), not a failure of the harness
		defer func() {
			if pv := recover(); pv != nil {
				st := string(debug.Stack())
				lib := false
				for _, ln := range strings.Split(st, "\n") {
					if strings.HasPrefix(ln, "panic(") || strings.HasPrefix(ln, "runtime.") || strings.HasPrefix(ln, "\t") || strings.HasPrefix(ln, "goroutine ") || strings.Contains(ln, "debug.Stack") || strings.HasPrefix(ln, "main.main.func") || ln == "" {
						continue
					}
					lib = strings.HasPrefix(ln, "github.com/onheap/eval.")
					break
				}
				if !lib {
					fmt.Fprintf(os.Stderr, "INFRASTRUCTURE: harness panic: %v\n%s\n", pv, st)
					os.Exit(2)
				}
				ctx.Direct = append(ctx.Direct, DirectViolation{What: fmt.Sprintf("the library panicked: %v", pv), Sig: "library-panic", Sample: map[string]interface{}{"stack": tail(st, 2500)}})
			}
		}()
		batches = p.Gen(ctx)
	}()
	var mismatches []Mismatch
	evals, distinct := 0, 0
	hist := map[string]int{}
	var samples []interface{}
	seen := map[string]bool{}
	for _, b := range batches {
		mm, err := RunBatch(b, useRef)
		if err != nil {
			fmt.Fprintln(os.Stderr, "INFRASTRUCTURE:", err)
			os.Exit(2)
		}
		mismatches = append(mismatches, mm...)
		for i, c := range b.Cases {
			evals++
			k := b.Name + "|" + c.Key
			if c.Key == "" {
				k = b.Name + "|" + c.Term
			}
			if c.Nontrivial && !seen[k] {
				seen[k] = true
				distinct++
			}
			for _, t := range c.Tags {
				hist[t]++
			}
			if i < 2 || (i%977 == 0 && len(samples) < 12) {
				samples = append(samples, map[string]interface{}{"correspondence": b.Name, "case": c.Sample})
			}
		}
	}

	evals += ctx.ExploreEvals
	distinct += ctx.ExploreDistinct
	samples = append(samples, ctx.ExploreSamples...)
	for k, v := range ctx.ExploreHist {
		hist[k] += v
	}

	// 3. verdict
	known := loadKnown()
	violations := 0
	replayDir := filepath.Join(buildDir, "replay")
	os.MkdirAll(replayDir, 0o755)
	if old, _ := filepath.Glob(filepath.Join(replayDir, id+"-*.json")); len(old) > 0 { // replays of earlier runs of this property
		for _, f := range old {
			os.Remove(f)
		}
	}
	knownPrinted := map[string]bool{}
	report := func(sig, what string, payload interface{}, suffix string) {
		for _, k := range known.Findings {
			if k.Property == id && k.Signature == sig && sig != "" {
				if !knownPrinted[sig] { // one line per listed finding, however many inputs exhibit it
					knownPrinted[sig] = true
					fmt.Printf("KNOWN-FINDING: property=%s %s\n", id, k.What)
				}
				return
			}
		}
		violations++
		path := filepath.Join(replayDir, fmt.Sprintf("%s-%d.json", id, violations))
		writeJSON(path, map[string]interface{}{"property": id, "what": what, "signature": sig, "detail": payload, "seed": seed, "tier": tier})
		if violations <= 10 {
			fmt.Printf("VIOLATION property=%s replay=%s%s\n", id, path, suffix)
		}
	}
	inSet := func(l []int, c int) bool {
		for _, x := range l {
			if x == c {
				return true
			}
		}
		return false
	}
	var fidelity []Mismatch
	ignored := 0
	for _, m := range mismatches {
		if m.Codes == nil {
			report("", "implementation and verified model disagree on this input; the model's output is what the property requires", m, "")
		} else {
			var bc, fc []string
			for _, c := range m.Codes {
				switch {
				case inSet(p.Behav, c):
					bc = append(bc, fmt.Sprintf("%d:%s", c, p.CodeText[c]))
				case inSet(p.Fidelity, c):
					fc = append(fc, fmt.Sprintf("%d:%s", c, p.CodeText[c]))
				default:
					ignored++
				}
			}
			if len(bc) > 0 {
				report("", "the implementation contradicts the property on this input: "+strings.Join(bc, "; "), m, "")
			} else if len(fc) > 0 {
				m.ModelOut = strings.Join(fc, "; ") + "\n" + m.ModelOut
				fidelity = append(fidelity, m)
			}
		}
		if violations >= 10 {
			break
		}
	}
	ctx.Extra["not_compared_out_of_domain"] = ignored
	for _, d := range ctx.Direct {
		report(d.Sig, d.What, d, "")
	}
	if violations == 0 && len(fidelity) > 0 {
		n := len(fidelity)
		if n > 5 {
			fidelity = fidelity[:5]
		}
		report("", "the correspondence between the model and the implementation no longer checks (the theorems are about the model, so the property is no longer shown for this code); no input was found on which the implementation contradicts the property",
			map[string]interface{}{"broken_correspondence": fidelity, "count": n, "searched": fmt.Sprintf("%d generated cases", evals)}, " no-failing-input-found")
	}
	if brokenWhy != "" && violations == 0 {
		report("", brokenWhy, map[string]interface{}{"no_longer_checks": propFile, "reason": brokenWhy,
			"searched": fmt.Sprintf("%d generated cases against the reference model (tables of the accepted tree)", evals)}, " no-failing-input-found")
	}

	// 4. evidence
	axioms := "Closed under the global context"
	if !strings.Contains(assumptionsOut, "Closed under the global context") || strings.Contains(assumptionsOut, "Axioms:") {
		axioms = strings.TrimSpace(assumptionsOut)
	}
	var tags []string
	for k := range hist {
		tags = append(tags, k)
	}
	sort.Strings(tags)
	dist := map[string]int{}
	for _, k := range tags {
		dist[k] = hist[k]
	}
	cov := map[string]interface{}{
		"obligations":         obligations,
		"discharged":          discharged,
		"checker_cmd":         "make -C /verif/coq -j16 Properties/" + id + ".vo corr && coqc " + strings.Join(coqFlags, " ") + " " + propFile + "  (Coq 8.16.1 kernel; full .vo build)",
		"trusted_base":        trustedBase(axioms),
		"evaluations":         evals,
		"distinct_nontrivial": distinct,
		"rule":                p.Rule,
		"samples":             samples,
		"input_distribution":  dist,
		"print_assumptions":   axioms,
		"theorems_file":       "coq/" + propFile,
		"reference_tables_used": useRef,
	}
	for k, v := range ctx.Extra {
		cov[k] = v
	}
	if len(ctx.Notes) > 0 {
		cov["notes"] = ctx.Notes
	}
	ev := Evidence{PropertyID: id, Tier: tier, Seed: seed, Level: "proof", Coverage: cov, Assumptions: p.Assumptions,
		WallS: time.Since(start).Seconds(), Violations: violations}
	writeJSON(filepath.Join(verifDir, "evidence", id+".json"), ev)
	fmt.Printf("%s %s: obligations %d/%d, %d cases (%d distinct non-trivial), %d violations, %.1fs\n",
		id, tier, discharged, obligations, evals, distinct, violations, time.Since(start).Seconds())
	if violations > 0 {
		os.Exit(1)
	}
}

func hashStr(s string) uint64 {
	h := uint64(1469598103934665603)
	for i := 0; i < len(s); i++ {
		h = (h ^ uint64(s[i])) * 1099511628211
	}
	return h
}

func trustedBase(axioms string) []string {
	return []string{
		"Coq 8.16.1 kernel (coqc; vm_compute used for finite table checks and the correspondence; no native_compute)",
		"axioms (Print Assumptions of the property theorems): " + axioms,
		"translator /verif/translator (go/ast; tables, constants and limits of /repo -> coq/Generated/Tables.v, regenerated on every run)",
		"correspondence check: Go harness /verif/harness runs /repo (build tag verif) and the Gallina model (vm_compute inside coqc) on the same generated inputs; no extraction is used",
		"hand-written Gallina model of the algorithms (coq/Model/*.v): modelled, tied to the code by the correspondence only",
	}
}

// buildRef builds a copy of the Coq development with the tables of the accepted tree
// (Generated/TablesRef.v) in place of the regenerated ones; used to search for a failing
// input when a proof obligation no longer checks.
func buildRef() error {
	ref := filepath.Join(buildDir, "refcoq")
	os.RemoveAll(ref)
	if out, err := sh(verifDir, 120, "cp", "-r", coqDir, ref); err != nil {
		return fmt.Errorf("%v %s", err, out)
	}
	sh(ref, 60, "sh", "-c", "find . -name '*.vo' -o -name '*.glob' -o -name '*.vok' -o -name '*.vos' -o -name '.*.aux' | xargs rm -f")
	b, err := os.ReadFile(filepath.Join(coqDir, "Generated", "TablesRef.v"))
	if err != nil {
		return err
	}
	os.WriteFile(filepath.Join(ref, "Generated", "Tables.v"), b, 0o644)
	sh(ref, 60, "coq_makefile", "-f", "_CoqProject", "-o", "Makefile")
	if out, err := sh(ref, 3000, "make", "-j16", "corr"); err != nil {
		return fmt.Errorf("%v %s", err, tail(out, 1500))
	}
	return nil
}
