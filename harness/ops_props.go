package main

import (
	"fmt"
	"math"
	"sort"
	"strings"

	eval "github.com/onheap/eval"
)

const opsImports = "Require Import Base Opcode Tables Ops OpsCorr."

func builtinNames() []string {
	n := eval.VerifBuiltinNames()
	sort.Strings(n)
	return n
}

var intPool = []int64{math.MinInt64, math.MinInt64 + 1, -1, 0, 1, math.MaxInt64 - 1, math.MaxInt64, 2, -2, 3, 7, 10, 100, -100,
	1 << 31, -(1 << 31), 1 << 32, 3037000500, -3037000500, 4294967296, 9999, 10000}

func randInt(r *Rand) int64 {
	switch r.Intn(10) {
	case 0, 1, 2, 3:
		return intPool[r.Intn(len(intPool))]
	case 4, 5:
		return int64(r.Intn(21)) - 10
	case 6:
		return int64(r.U64())
	case 7:
		return int64(r.U64() >> uint(r.Intn(64)))
	default:
		return int64(r.Intn(2001)) - 1000
	}
}

var strPool = []string{"", "a", "b", "abc", "1.2.3", "x y", "é", "2021-01-02", "0", "true", "a(b", "q;r", "λx"}

func randStr(r *Rand) string { return strPool[r.Intn(len(strPool))] }

func randWrong(r *Rand) interface{} {
	switch r.Intn(9) {
	case 0:
		return randStr(r)
	case 1:
		return r.Bool()
	case 2:
		return randInt(r)
	case 3:
		return []int64{1, 2}
	case 4:
		return []string{"a"}
	case 5:
		return nil
	case 6:
		return []string{}
	case 7:
		return map[int64]struct{}{1: {}}
	default:
		return map[string]struct{}{"a": {}}
	}
}

func sampleVals(vs []interface{}) string {
	parts := make([]string, len(vs))
	for i, v := range vs {
		parts[i] = fmt.Sprintf("%#v", v)
	}
	s := strings.Join(parts, ", ")
	if len(s) > 400 {
		s = s[:400] + "…"
	}
	return s
}

func opCase(name string, params []interface{}, tags ...string) Case {
	vp := make([]eval.Value, len(params))
	for i, x := range params {
		vp[i] = x
	}
	before := fmt.Sprint(params)
	var v eval.Value
	var err error
	ok, pan := true, interface{}(nil)
	guarded(map[string]interface{}{"call": "operator " + name, "operands": fmt.Sprint(params)}, func() {
		defer func() { pan = recover() }()
		v, err, ok = eval.VerifBuiltin(name, vp)
	})
	if !ok {
		panic("no builtin " + name)
	}
	obs := coqRes(v, err)
	if after := fmt.Sprint(params); after != before {
		// the operator changed its operands (e.g. sorted a list in place): never the model's outcome
		obs, v, err = "Err (EOther 4243)", nil, fmt.Errorf("OPERANDS MODIFIED: %s -> %s", clip(before, 120), clip(after, 120))
	}
	if pan != nil {
		// the operator panicked: an outcome the model never has (compared as a mismatch, reported with the input)
		obs, v, err = "Err (EOther 4242)", nil, fmt.Errorf("PANIC: %v", pan)
	}
	term := fmt.Sprintf("(%s, %s, %s)", coqStr(name), coqValues(params), obs)
	res := fmt.Sprint(v)
	if err != nil {
		res = "error: " + err.Error()
		tags = append(tags, "result:error")
	} else {
		tags = append(tags, "result:value")
	}
	if len(res) > 200 {
		res = res[:200] + "…"
	}
	return Case{Term: term, Key: term, Nontrivial: len(params) >= 1,
		Sample: map[string]interface{}{"operator": name, "params": sampleVals(params), "go_result": res},
		Tags:   append(tags, "op:"+name)}
}

func init() {
	register(&PropDef{
		ID:   "C18",
		Rule: "every built-in name (cross-checked against the running package) x operand counts 0..6 and 127 x values from the int64 extremes, random ints, bools, and wrong types; called directly (VerifBuiltin) and compared with the Gallina operator model; a case is non-trivial when it has at least one operand; distinct = distinct (operator, operands) terms",
		Assumptions: []string{
			"operators are called directly through the verif hook (same function values the parser installs) and, in batch eval, through Compile/Eval with optimizations disabled",
			"error values are compared by class and reported operator name, not by message text"},
		Behav: []int{5, 15, 17, 2}, Fidelity: []int{1, 3, 4, 8, 9, 10}, Ignore: []int{6, 7, 14, 16, 50}, CodeText: evalCodeText,
		Gen:   genC18,
	})
	register(&PropDef{
		ID:   "C17",
		Rule: "in/overlap on list pairs with total length on both sides of the 100-element switch (0,1,49+50,50+50,99+1,1+99,300+5,...), duplicates, shared/disjoint elements, both element types, empty literals in either position, pre-built sets, type mismatches; conventionally written infix expressions over & && | || = == evaluated with one spelling, with the other spelling of the same operators, and as the prefix form; negated comparisons of equal operands at expression level; expression-level cases through Compile/Eval under optimisation subsets: list literals written with zero-padded and signed integers and probed with their own elements, named []string/[]int64 constants of the configuration as operands, list constants that are views of one array; non-trivial = both operands are collections/probe of matching kind; distinct = distinct terms",
		Assumptions: []string{"lists are passed as []int64/[]string values directly to the operator and, in batch eval, as literals through Compile/Eval"},
		Behav:       []int{5, 15, 2}, Fidelity: []int{1, 3, 4, 8, 9, 10}, Ignore: []int{6, 7, 14, 16, 17, 50}, CodeText: evalCodeText,
		Gen:         genC17,
	})
	register(&PropDef{
		ID:   "C19",
		Rule: "version strings with 0..6 components around the 9999/10000 carry boundary, signs, junk, valid lengths -1..6 and default; dates/datetimes incl. leap days, month ends, invalid days, default and field-permuted custom layouts; non-trivial = parses successfully; distinct = distinct terms",
		Assumptions: []string{"time.Parse is modelled for layouts built from the fields 2006 01 02 15 04 05 and literal separators only (partial: other layout verbs are outside the model and not generated)"},
		Gen:         genC19,
	})
}

func genC18(c *RunCtx) []*Batch {
	r := c.R
	b := &Batch{Prop: "C18", Name: "builtin_direct", Imports: opsImports, CaseType: "op_case", ChkFn: "chk_op", OutFn: "out_op"}
	names := builtinNames()
	scalar := []string{}
	for _, n := range names {
		switch n {
		case "in", "overlap", "date", "datetime", "to_date", "to_datetime", "t_time", "t_date", "td_time", "td_date", "version", "t_version", "to_version":
		default:
			scalar = append(scalar, n)
		}
	}
	c.Extra["builtin_names"] = len(names)
	perCount := c.N(40, 600)
	for _, name := range scalar {
		for _, cnt := range []int{0, 1, 2, 3, 4, 5, 6, 127} {
			reps := perCount
			if cnt == 0 {
				reps = 1
			}
			if cnt == 127 {
				reps = c.N(1, 10)
			}
			for k := 0; k < reps; k++ {
				ps := make([]interface{}, cnt)
				mode := r.Intn(10)
				cluster := randInt(r) // operands near one value: equalities and order boundaries
				isLogic := strings.Contains("and or xor not & | ! && ||", name) && name != "n"
				for i := range ps {
					switch {
					case mode == 0: // all wrong/mixed
						ps[i] = randWrong(r)
					case mode == 1 && i == r.Intn(cnt): // one wrong operand
						ps[i] = randWrong(r)
					case isLogic:
						ps[i] = r.Bool()
					case (name == "eq" || name == "ne" || name == "=" || name == "==" || name == "!=") && mode >= 7:
						// eq/ne on mixed comparable kinds
						switch r.Intn(4) {
						case 0:
							ps[i] = randStr(r)
						case 1:
							ps[i] = r.Bool()
						default:
							ps[i] = int64(r.Intn(3))
						}
					default:
						if mode >= 8 { // small values: equalities and zero divisors are likely
							ps[i] = int64(r.Intn(4)) - 1
						} else if mode >= 5 {
							ps[i] = cluster + int64(r.Intn(3)) - 1
						} else {
							ps[i] = randInt(r)
						}
					}
				}
				b.Cases = append(b.Cases, opCase(name, ps, fmt.Sprintf("count:%d", cnt)))
			}
		}
	}
	// equality family on every ordered pair (and some triples) of zero-like and small values of different kinds:
	// 0, false, "", nil must all be different from one another
	kinds := []interface{}{int64(0), int64(1), false, true, "", "x", "0", nil, int64(-1)}
	for _, name := range []string{"eq", "ne", "=", "==", "!="} {
		for _, x := range kinds {
			for _, y := range kinds {
				b.Cases = append(b.Cases, opCase(name, []interface{}{x, y}, "eq-kinds"))
				if r.Intn(4) == 0 {
					b.Cases = append(b.Cases, opCase(name, []interface{}{x, y, kinds[r.Intn(len(kinds))]}, "eq-kinds"))
				}
				if r.Intn(3) == 0 { // an uncomparable operand after a mismatch (or a match): a type error all the same
					b.Cases = append(b.Cases, opCase(name, []interface{}{x, y, []interface{}{[]int64{1, 2}, []string{"a"}, map[string]struct{}{"a": {}}}[r.Intn(3)]}, "eq-kinds"))
				}
			}
		}
	}
	infixAliasCheck(c)
	return []*Batch{b, evalBatchOps(c, "C18", scalar)}
}

// infixAliasCheck: in infix notation too an alias behaves like its named form: a conventionally written expression over
// the logic and comparison operators is evaluated with one spelling of each operator and again with another spelling
// of the same operators, and as the prefix form of the tree - all three must agree on every binding.
func infixAliasCheck(c *RunCtx) {
	r := c.R
	fam := map[string][]string{"&": {"&", "&&"}, "&&": {"&", "&&"}, "|": {"|", "||"}, "||": {"|", "||"}, "=": {"=", "=="}, "==": {"=", "=="}}
	var gen func(d int) *GT
	gen = func(d int) *GT {
		if d <= 0 || r.Intn(5) == 0 {
			switch r.Intn(4) {
			case 0:
				return gop([]string{"=", "==", "<", "!="}[r.Intn(4)], gvar(pick(r, intVars)), gconst(int64(r.Intn(3))))
			case 1:
				return gop("!", gvar(pick(r, boolVars)))
			default:
				return gvar(pick(r, boolVars))
			}
		}
		return gop([]string{"&", "&&", "|", "||"}[r.Intn(4)], gen(d-1), gen(d-1))
	}
	var respell func(t *GT) *GT
	respell = func(t *GT) *GT {
		n := &GT{Kind: t.Kind, Val: t.Val, Name: t.Name}
		if f, ok := fam[t.Name]; ok && t.Kind == "op" {
			n.Name = f[r.Intn(len(f))]
		}
		for _, ch := range t.Ch {
			n.Ch = append(n.Ch, respell(ch))
		}
		return n
	}
	plain := func(t *GT) string { // no redundant parentheses: a fixed source of randomness that never wraps
		return infixRender(NewRand(1), t, 0)
	}
	n := c.N(150, 6000)
	for k := 0; k < n; k++ {
		t := gen(2 + r.Intn(3))
		if t.Kind != "op" {
			continue
		}
		u := respell(t)
		vals := map[string]interface{}{}
		for _, v := range boolVars {
			vals[v] = r.Bool()
		}
		for _, v := range intVars {
			vals[v] = int64(r.Intn(3))
		}
		run := func(src string, infix bool) string {
			conf := eval.NewConfig(eval.RegVarAndOp(vals), eval.Optimizations(r.Bool()))
			if infix {
				conf.CompileOptions[eval.InfixNotation] = true
			}
			e, err, pan := compileSafe(conf, src)
			if err != nil || pan != nil || e == nil {
				return fmt.Sprintf("compile: %v %v", err, pan)
			}
			res := ""
			guarded(map[string]interface{}{"call": "Eval (infix alias)", "source": src}, func() {
				defer func() {
					if p := recover(); p != nil {
						res = fmt.Sprintf("panic: %v", p)
					}
				}()
				v, er := e.Eval(eval.NewCtxFromVars(conf, vals))
				if er != nil {
					res = "error: " + er.Error()
				} else {
					res = fmt.Sprintf("%T %v", v, v)
				}
			})
			return res
		}
		c.ExploreEvals++
		c.ExploreHist["infix-alias"]++
		s1, s2 := plain(t), plain(u)
		r0, r1, r2 := run(t.Src(), false), run(s1, true), run(s2, true)
		if r0 != r1 || r1 != r2 {
			c.Direct = append(c.Direct, DirectViolation{What: "in infix notation an alias spelling does not behave like the other spelling of the same operator (or like the prefix form)", Sig: "c18-infix-alias",
				Sample: map[string]interface{}{"prefix": t.Src(), "infix_a": s1, "infix_b": s2, "values": fmt.Sprint(vals), "prefix_result": r0, "infix_a_result": r1, "infix_b_result": r2}})
		}
	}
}

func randIntList(r *Rand, n int, universe int64, base int64) []int64 {
	l := make([]int64, n)
	for i := range l {
		l[i] = base + int64(r.U64()%uint64(universe))
	}
	return l
}

func genC17(c *RunCtx) []*Batch {
	r := c.R
	b := &Batch{Prop: "C17", Name: "in_overlap_direct", Imports: opsImports, CaseType: "op_case", ChkFn: "chk_op", OutFn: "out_op"}
	sizes := [][2]int{{0, 0}, {0, 1}, {1, 0}, {1, 1}, {2, 3}, {49, 50}, {50, 49}, {50, 50}, {99, 0}, {0, 99}, {99, 1}, {1, 99}, {100, 0}, {0, 100},
		{300, 5}, {5, 300}, {60, 60}, {120, 130}, {98, 1}, {1, 98}, {10, 89}, {10, 90}, {90, 10}, {51, 49}}
	reps := c.N(24, 400)
	toStr := func(l []int64) []string {
		s := make([]string, len(l))
		for i, v := range l {
			s[i] = fmt.Sprintf("s%d", v)
		}
		return s
	}
	for _, sz := range sizes {
		for k := 0; k < reps; k++ {
			uni := int64(1 + r.Intn(4)*r.Intn(200) + r.Intn(10))
			var a, bb []int64
			switch r.Intn(4) {
			case 0: // disjoint by construction
				a, bb = randIntList(r, sz[0], uni, 0), randIntList(r, sz[1], uni, uni+5)
			case 1: // exactly one shared element at random positions
				a, bb = randIntList(r, sz[0], uni, 0), randIntList(r, sz[1], uni, uni+5)
				if sz[0] > 0 && sz[1] > 0 {
					bb[r.Intn(sz[1])] = a[r.Intn(sz[0])]
				}
			default:
				a, bb = randIntList(r, sz[0], uni, 0), randIntList(r, sz[1], uni, 0)
			}
			tag := fmt.Sprintf("sizes:%d+%d", sz[0], sz[1])
			side := "scan"
			if sz[0]+sz[1] >= 100 {
				side = "hash"
			}
			if r.Bool() {
				b.Cases = append(b.Cases, opCase("overlap", []interface{}{a, bb}, tag, "path:"+side, "elem:int"))
				b.Cases = append(b.Cases, opCase("overlap", []interface{}{bb, a}, tag, "path:"+side, "elem:int"))
			} else {
				b.Cases = append(b.Cases, opCase("overlap", []interface{}{toStr(a), toStr(bb)}, tag, "path:"+side, "elem:string"))
				b.Cases = append(b.Cases, opCase("overlap", []interface{}{toStr(bb), toStr(a)}, tag, "path:"+side, "elem:string"))
			}
			// membership probes
			var probe int64
			if len(a) > 0 && r.Bool() {
				probe = a[r.Intn(len(a))]
			} else {
				probe = int64(r.Intn(int(uni) + 3))
			}
			switch r.Intn(4) {
			case 0:
				b.Cases = append(b.Cases, opCase("in", []interface{}{probe, a}, "in:int-list"))
			case 1:
				b.Cases = append(b.Cases, opCase("in", []interface{}{fmt.Sprintf("s%d", probe), toStr(a)}, "in:string-list"))
			case 2:
				set := map[int64]struct{}{}
				for _, v := range a {
					set[v] = struct{}{}
				}
				b.Cases = append(b.Cases, opCase("in", []interface{}{probe, set}, "in:int-set"))
			default:
				set := map[string]struct{}{}
				for _, v := range toStr(a) {
					set[v] = struct{}{}
				}
				b.Cases = append(b.Cases, opCase("in", []interface{}{fmt.Sprintf("s%d", probe), set}, "in:string-set"))
			}
		}
	}
	// empty literals (the parser gives []string{}), mismatches, wrong counts
	empty := []string{}
	specials := [][]interface{}{
		{empty, []int64{1, 2}}, {[]int64{1, 2}, empty}, {empty, empty}, {empty, []string{"a"}}, {[]string{"a"}, empty},
		{empty, []int64{}}, {[]int64{}, empty}, {[]int64{}, []int64{}},
		{[]string{"a"}, []int64{1}}, {[]int64{1}, []string{"a"}}, {[]int64{1}, "a"}, {"a", []int64{1}}, {int64(1), []int64{1}},
		{[]int64{1}, nil}, {nil, []int64{1}}, {[]string{"a"}, map[string]struct{}{"a": {}}}, {[]int64{1}, map[int64]struct{}{1: {}}},
		{}, {[]int64{1}}, {[]int64{1}, []int64{1}, []int64{1}},
	}
	for _, ps := range specials {
		b.Cases = append(b.Cases, opCase("overlap", ps, "special"))
	}
	inSpecials := [][]interface{}{
		{int64(1), empty}, {"a", empty}, {int64(1), []string{"a"}}, {"a", []int64{1}}, {true, []int64{1}}, {nil, []int64{1}},
		{int64(1), map[string]struct{}{"a": {}}}, {"a", map[int64]struct{}{1: {}}}, {int64(1), int64(1)}, {"a", "a"},
		{[]int64{1}, []int64{1}}, {}, {int64(1)}, {int64(1), []int64{1}, []int64{1}}, {int64(1), nil}, {"a", nil},
		{int64(1), []int64{}}, {"a", []string{}},
	}
	for _, ps := range inSpecials {
		b.Cases = append(b.Cases, opCase("in", ps, "special"))
	}
	// list constants of the configuration that are views of ONE array (tiers cut out of a master list, with repeated
	// elements): compiling an expression that names one of them must leave the others - the caller's slices - as they are
	for rep := 0; rep < c.N(6, 200); rep++ {
		master := make([]int64, 160)
		for i := range master {
			master[i] = int64(i / 2) // every element twice
		}
		names := []string{"n0", "n1", "n1", "n2", "n3", "n3"}
		conf := eval.NewConfig()
		conf.ConstantMap["TIER_A"], conf.ConstantMap["TIER_B"] = master[:120], master[100:]
		conf.ConstantMap["FIRST"], conf.ConstantMap["LAST"] = names[:4], names[2:]
		wantB := append([]int64{}, master[100:]...)
		wantL := append([]string{}, names[2:]...)
		for _, src := range []string{"(in 7 TIER_A)", "(overlap TIER_A (1 2 3))", "(in \"n1\" FIRST)", "(overlap FIRST LAST)"} {
			if _, err, pan := compileSafe(conf, src); err != nil || pan != nil {
				c.Notes = append(c.Notes, fmt.Sprintf("shared-array constants: compile of %s: %v %v", src, err, pan))
			}
		}
		c.ExploreEvals += 4
		gotB, _ := conf.ConstantMap["TIER_B"].([]int64)
		gotL, _ := conf.ConstantMap["LAST"].([]string)
		if fmt.Sprint(gotB) != fmt.Sprint(wantB) || fmt.Sprint(gotL) != fmt.Sprint(wantL) {
			c.Direct = append(c.Direct, DirectViolation{What: "compiling an expression that names one list constant changed ANOTHER list constant of the configuration (both are views of one array of the caller)",
				Sig: "c17-shared-array", Sample: map[string]interface{}{"TIER_B_before": fmt.Sprint(wantB[:12]), "TIER_B_after": fmt.Sprint(gotB[:minInt(12, len(gotB))]), "LAST_before": fmt.Sprint(wantL), "LAST_after": fmt.Sprint(gotL)}})
			break
		}
		// and membership in the untouched view is what its elements say
		for _, v := range []int64{wantB[0], wantB[len(wantB)-1], 79} {
			e, err, pan := compileSafe(conf, fmt.Sprintf("(in %d TIER_B)", v))
			if err != nil || pan != nil {
				continue
			}
			got, er := e.Eval(eval.NewCtxFromVars(conf, map[string]interface{}{}))
			if er != nil || got != true {
				c.Direct = append(c.Direct, DirectViolation{What: fmt.Sprintf("(in %d TIER_B) = %v / %v, but %d is an element of TIER_B", v, got, er, v), Sig: "c17-shared-array-in", Sample: fmt.Sprint(wantB[:12])})
			}
		}
	}
	return []*Batch{b, evalBatchLists(c)}
}

func genC19(c *RunCtx) []*Batch {
	r := c.R
	b := &Batch{Prop: "C19", Name: "version_time_direct", Imports: opsImports, CaseType: "op_case", ChkFn: "chk_op", OutFn: "out_op"}
	comp := func() string {
		switch r.Intn(12) {
		case 0:
			return "9999"
		case 1:
			return "10000"
		case 2:
			return "0"
		case 3:
			return fmt.Sprint(9990 + r.Intn(20))
		case 4:
			return []string{"", "a", "1a", "-1", "+3", " 1", "1 ", "٣", "99999999999999999999", "-9223372036854775808", "007", "1e3", "0x1"}[r.Intn(13)]
		default:
			return fmt.Sprint(r.Intn(10000))
		}
	}
	verNames := []string{"version", "t_version", "to_version"}
	n := c.N(1500, 80000)
	for k := 0; k < n; k++ {
		nc := r.Intn(7)
		parts := make([]string, nc)
		for i := range parts {
			parts[i] = comp()
		}
		s := strings.Join(parts, ".")
		name := verNames[r.Intn(3)]
		var ps []interface{}
		switch r.Intn(8) {
		case 0:
			ps = []interface{}{s}
		case 1:
			ps = []interface{}{s, int64(r.Intn(9) - 2)}
			if r.Intn(3) == 0 {
				// lengths far outside 1..4, among them the ones that equal 1..4 after truncation to 8, 16 or 32 bits
				w := []int64{1 << 8, 1 << 16, 1 << 32, -(1 << 8), -(1 << 16), 1 << 62}[r.Intn(6)]
				ps = []interface{}{s, w + int64(r.Intn(6))}
				if r.Intn(4) == 0 {
					ps = []interface{}{s, []int64{math.MaxInt64, math.MinInt64, math.MinInt64 + 3, 5, 127, 128, 255, 65535}[r.Intn(8)]}
				}
			}
		case 2:
			ps = []interface{}{s, randWrong(r)}
		case 3:
			ps = []interface{}{randWrong(r)}
		default:
			ps = []interface{}{s, int64(1 + r.Intn(4))}
		}
		if r.Intn(50) == 0 {
			ps = append(ps, int64(1))
		}
		if r.Intn(80) == 0 {
			ps = nil
		}
		cs := opCase(name, ps, "kind:version", fmt.Sprintf("components:%d", nc))
		cs.Nontrivial = contains(cs.Tags, "result:value")
		b.Cases = append(b.Cases, cs)
	}
	// dates
	fields := []string{"2006", "01", "02", "15", "04", "05"}
	seps := []string{"-", "/", " ", ":", "T", ""}
	mkLayout := func() (string, []int) {
		switch r.Intn(4) {
		case 0:
			return "2006-01-02", []int{0, 1, 2}
		case 1:
			return "2006-01-02 15:04:05", []int{0, 1, 2, 3, 4, 5}
		}
		perm := []int{0, 1, 2, 3, 4, 5}
		for i := len(perm) - 1; i > 0; i-- {
			j := r.Intn(i + 1)
			perm[i], perm[j] = perm[j], perm[i]
		}
		perm = perm[:1+r.Intn(6)]
		var sb strings.Builder
		for i, f := range perm {
			if i > 0 {
				sb.WriteString(seps[r.Intn(len(seps))])
			}
			sb.WriteString(fields[f])
		}
		return sb.String(), perm
	}
	renderL := func(layout string, t [6]int) string {
		var sb strings.Builder
		for i := 0; i < len(layout); {
			switch {
			case strings.HasPrefix(layout[i:], "2006"):
				fmt.Fprintf(&sb, "%04d", t[0])
				i += 4
			case strings.HasPrefix(layout[i:], "01"):
				fmt.Fprintf(&sb, "%02d", t[1])
				i += 2
			case strings.HasPrefix(layout[i:], "02"):
				fmt.Fprintf(&sb, "%02d", t[2])
				i += 2
			case strings.HasPrefix(layout[i:], "15"):
				fmt.Fprintf(&sb, "%02d", t[3])
				i += 2
			case strings.HasPrefix(layout[i:], "04"):
				fmt.Fprintf(&sb, "%02d", t[4])
				i += 2
			case strings.HasPrefix(layout[i:], "05"):
				fmt.Fprintf(&sb, "%02d", t[5])
				i += 2
			default:
				sb.WriteByte(layout[i])
				i++
			}
		}
		return sb.String()
	}
	timeNames := []string{"date", "datetime", "to_date", "to_datetime", "t_time", "t_date", "td_time", "td_date"}
	nd := c.N(1500, 80000)
	for k := 0; k < nd; k++ {
		name := timeNames[r.Intn(len(timeNames))]
		layout, _ := mkLayout()
		var t [6]int
		switch r.Intn(6) {
		case 0:
			t[0] = []int{0, 1, 4, 100, 400, 1600, 1900, 1970, 1999, 2000, 2024, 2100, 9999}[r.Intn(13)]
		default:
			t[0] = r.Intn(10000)
		}
		t[1] = 1 + r.Intn(12)
		switch r.Intn(5) {
		case 0:
			t[2] = 28 + r.Intn(4) // month ends, maybe invalid
		case 1:
			t[2] = []int{0, 1, 29, 30, 31, 32}[r.Intn(6)]
		default:
			t[2] = 1 + r.Intn(28)
		}
		if r.Intn(6) == 0 {
			t[1] = 2
		}
		if r.Intn(40) == 0 {
			t[1] = []int{0, 13}[r.Intn(2)]
		}
		t[3], t[4], t[5] = r.Intn(24), r.Intn(60), r.Intn(60)
		if r.Intn(40) == 0 {
			t[3] = 24
		}
		if r.Intn(40) == 0 {
			t[4] = 60
		}
		if r.Intn(40) == 0 {
			t[5] = 60
		}
		val := renderL(layout, t)
		if r.Intn(25) == 0 { // mutate the text
			switch r.Intn(4) {
			case 0:
				val += "x"
			case 1:
				if len(val) > 0 {
					val = val[:len(val)-1]
				}
			case 2:
				val = strings.Replace(val, "-", "/", 1)
			default:
				val = "junk"
			}
		}
		var ps []interface{}
		def := layout == "2006-01-02" || layout == "2006-01-02 15:04:05"
		switch {
		case (name == "td_time" || name == "td_date") || (def && r.Bool()):
			// default layout of the operator: render for it
			dl := "2006-01-02"
			if name == "datetime" || name == "to_datetime" || name == "td_time" {
				dl = "2006-01-02 15:04:05"
			}
			if name == "t_time" || name == "t_date" {
				ps = []interface{}{val, layout}
			} else {
				if r.Intn(20) != 0 {
					val = renderL(dl, t)
				}
				ps = []interface{}{val}
			}
		default:
			ps = []interface{}{val, layout}
		}
		if r.Intn(60) == 0 {
			ps = append(ps, "x")
		}
		if r.Intn(60) == 0 && len(ps) > 0 {
			ps[r.Intn(len(ps))] = randWrong(r)
		}
		if r.Intn(100) == 0 {
			ps = nil
		}
		cs := opCase(name, ps, "kind:time")
		cs.Nontrivial = contains(cs.Tags, "result:value")
		b.Cases = append(b.Cases, cs)
	}
	return []*Batch{b}
}

func contains(l []string, s string) bool {
	for _, x := range l {
		if x == s {
			return true
		}
	}
	return false
}
