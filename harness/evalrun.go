package main

import (
	"fmt"
	"sort"
	"strings"
	"sync"

	eval "github.com/onheap/eval"
)

// ---------- observations ----------

type Obs struct {
	Kind  string // get, call, loop
	Name  string
	Key   int16
	Fast  bool
	Args  []interface{}
	Res   interface{}
	Err   error
	Pos   int16
	Of    string // Coq nkind of the real node (loop)
	Stack []interface{}
}

func (o Obs) Coq() string {
	switch o.Kind {
	case "get":
		return fmt.Sprintf("OGet %s %s", coqStr(o.Name), coqZ(int64(o.Key)))
	case "call":
		return fmt.Sprintf("OCall %s %s %s (%s)", coqStr(o.Name), coqBool(o.Fast), coqValues(o.Args), coqRes(o.Res, o.Err))
	default:
		return fmt.Sprintf("OLoop %s (%s) %s", coqZ(int64(o.Pos)), o.Of, coqValues(o.Stack))
	}
}

func (o Obs) String() string {
	switch o.Kind {
	case "get":
		return fmt.Sprintf("Get(%s,%d)", o.Name, o.Key)
	case "call":
		r := fmt.Sprint(o.Res)
		if o.Err != nil {
			r = "error:" + o.Err.Error()
		}
		return fmt.Sprintf("%s%v=%s", o.Name, o.Args, r)
	default:
		return fmt.Sprintf("LOOP@%d%v", o.Pos, o.Stack)
	}
}

func coqObsList(l []Obs) string {
	it := make([]string, len(l))
	for i, o := range l {
		it[i] = o.Coq()
	}
	return coqList(it)
}

// ---------- recording fetcher ----------

type Recorder struct {
	mu  sync.Mutex
	Log []Obs
}

type RecFetcher struct {
	Vals  map[string]interface{} // value or *UserErr
	Avail map[string]bool        // nil: everything available
	Lazy  bool                   // Get succeeds for unavailable variables too (a loading fetcher)
	Rec   *Recorder
}

func (f *RecFetcher) Get(k eval.VariableKey, name string) (eval.Value, error) {
	f.Rec.Log = append(f.Rec.Log, Obs{Kind: "get", Name: name, Key: int16(k)})
	v, ok := f.Vals[name]
	if !ok || (f.Avail != nil && !f.Avail[name] && !f.Lazy) {
		return nil, fmt.Errorf("variableKey not exist %s", name)
	}
	if ue, isErr := v.(*UserErr); isErr {
		return nil, ue
	}
	return v, nil
}
func (f *RecFetcher) Set(k eval.VariableKey, name string, v eval.Value) error { return nil }
func (f *RecFetcher) Cached(k eval.VariableKey, name string) bool {
	if f.Avail == nil {
		_, ok := f.Vals[name]
		return ok
	}
	return f.Avail[name]
}

// ---------- the registered test operators (mirrors coq/Corr/TestEnv.v test_custom) ----------

func testOpImpl(name string, args []eval.Value) (eval.Value, error) {
	switch name {
	case "c_sum":
		var s int64
		for _, a := range args {
			z, ok := a.(int64)
			if !ok {
				return nil, userErrs[1]
			}
			s += z
		}
		return s, nil
	case "c_fail":
		return int64(0), userErrs[2] // a non-nil zero value beside the error, as Go code commonly returns
	case "c_first":
		if len(args) == 0 {
			return nil, nil
		}
		return args[0], nil
	case "c_now":
		if len(args) != 0 {
			return nil, userErrs[3]
		}
		return int64(42), nil
	case "c_not0":
		for _, a := range args {
			if z, ok := a.(int64); ok && z == 0 {
				return false, userErrs[4]
			}
		}
		return true, nil
	case "c_id":
		if len(args) != 1 {
			return nil, userErrs[6]
		}
		return args[0], nil
	case "c_opq":
		return Opaque{ID: 7}, nil
	case "c_yes":
		return true, nil
	case "c_no":
		return false, nil
	}
	return nil, fmt.Errorf("unknown test operator %s", name)
}

var testOpNames = []string{"c_sum", "c_fail", "c_first", "c_now", "c_not0", "c_id", "c_opq", "c_yes", "c_no"}

// ---------- configuration of one run ----------

type RunCfg struct {
	Opts      map[string]bool // optimisation switches that are set explicitly (absent = enabled by default)
	Events    bool
	Debug     bool
	Stateless []string
	Costs     map[string]int64
	Undefined bool
	Consts    map[string]interface{}
	VarNames  []string // registration order
	// when Sibling is non-nil the configuration is DERIVED: the first BaseCut stateless declarations are made on a
	// base configuration (one append each), the configuration used and a sibling are both derived from that base
	// (ExtendConf or CopyConfig), then each adds its own declarations - the sibling's must not leak into this one
	Sibling  []string
	BaseCut  int
	ViaCopy  bool
	// the key map is partly pre-defined by the caller with a gap (first variable key 1, second key 3); the others
	// are registered by GetOrRegisterKey and must get keys nobody owns
	KeyGap bool
	// operators registered under built-in names (+, eq, not): the built-in must win everywhere, at compile time and at run time
	Shadow bool
}

func (rc *RunCfg) Coq() string {
	var en []string
	keys := make([]string, 0, len(rc.Opts))
	for k := range rc.Opts {
		keys = append(keys, k)
	}
	sort.Strings(keys)
	for _, k := range keys {
		en = append(en, fmt.Sprintf("(%q, %s)", k, coqBool(rc.Opts[k])))
	}
	var cs []string
	ck := make([]string, 0, len(rc.Costs))
	for k := range rc.Costs {
		ck = append(ck, k)
	}
	sort.Strings(ck)
	for _, k := range ck {
		cs = append(cs, fmt.Sprintf("(%s, %s)", coqStr(k), coqZ(rc.Costs[k])))
	}
	return fmt.Sprintf("{| enabled := %s%%string; stateless := %s; registered := %s; costs := %s; events := %s |}",
		coqList(en), coqStrList(rc.Stateless), coqStrList(testOpNames), coqList(cs), coqBool(rc.Events || rc.Debug))
}

func (rc *RunCfg) Describe() string {
	d := fmt.Sprintf("opts=%v events=%v stateless=%v costs=%v undefined=%v", rc.Opts, rc.Events || rc.Debug, rc.Stateless, rc.Costs, rc.Undefined)
	if rc.KeyGap {
		d += " keymap-predefined-with-gap"
	}
	if rc.Shadow {
		d += " operators-registered-under-builtin-names(+,eq,not,in,and)"
	}
	if rc.Sibling != nil {
		d += fmt.Sprintf(" derived(base declares the first %d, viaCopy=%v, a sibling derived from the same base declares %v)", rc.BaseCut, rc.ViaCopy, rc.Sibling)
	}
	return d
}

type Built struct {
	Conf        *eval.Config
	CompileLog  *Recorder // operator calls with a nil ctx (during Compile)
	Keys        map[string]int16
}

func (rc *RunCfg) Build() *Built {
	b := &Built{CompileLog: &Recorder{}, Keys: map[string]int16{}}
	conf := eval.NewConfig()
	for _, n := range testOpNames {
		name := n
		conf.OperatorMap[name] = func(ctx *eval.Ctx, params []eval.Value) (eval.Value, error) {
			args := append([]interface{}(nil), toIface(params)...)
			v, err := testOpImpl(name, params)
			o := Obs{Kind: "call", Name: name, Args: args, Res: v, Err: err}
			if ctx == nil {
				b.CompileLog.mu.Lock()
				b.CompileLog.Log = append(b.CompileLog.Log, o)
				b.CompileLog.mu.Unlock()
			} else if rf, ok := ctx.VariableFetcher.(*RecFetcher); ok {
				rf.Rec.Log = append(rf.Rec.Log, o)
			}
			return v, err
		}
	}
	if rc.Shadow {
		for _, nme := range []string{"+", "eq", "not", "in", "and"} {
			conf.OperatorMap[nme] = func(ctx *eval.Ctx, params []eval.Value) (eval.Value, error) { return int64(424242), nil }
		}
	}
	for k, v := range rc.Opts {
		conf.CompileOptions[eval.CompileOption(k)] = v
	}
	if rc.Events {
		conf.CompileOptions[eval.ReportEvent] = true
	}
	if rc.Debug {
		conf.CompileOptions[eval.Debug] = true
	}
	if rc.Undefined {
		conf.CompileOptions[eval.AllowUndefinedVariable] = true
	} else {
		if rc.KeyGap && len(rc.VarNames) >= 2 {
			conf.VariableKeyMap[rc.VarNames[0]] = 1
			conf.VariableKeyMap[rc.VarNames[1]] = 3
		}
		for _, n := range rc.VarNames {
			eval.GetOrRegisterKey(conf, n)
		}
	}
	for k, v := range stdConsts {
		conf.ConstantMap[k] = v
	}
	for k, v := range rc.Consts {
		conf.ConstantMap[k] = v
	}
	for k, v := range rc.Costs {
		conf.CostsMap[k] = float64(v)
	}
	if rc.Sibling == nil {
		conf.StatelessOperators = append(conf.StatelessOperators, rc.Stateless...)
	} else {
		cut := rc.BaseCut
		if cut > len(rc.Stateless) {
			cut = len(rc.Stateless)
		}
		for _, n := range rc.Stateless[:cut] {
			conf.StatelessOperators = append(conf.StatelessOperators, n)
		}
		derive := func() *eval.Config {
			if rc.ViaCopy {
				return eval.CopyConfig(conf)
			}
			return eval.NewConfig(eval.ExtendConf(conf))
		}
		mine, sib := derive(), derive()
		for _, n := range rc.Stateless[cut:] {
			mine.StatelessOperators = append(mine.StatelessOperators, n)
		}
		for _, n := range rc.Sibling {
			sib.StatelessOperators = append(sib.StatelessOperators, n)
		}
		conf = mine
	}
	b.Conf = conf
	for n, k := range conf.VariableKeyMap {
		b.Keys[n] = int16(k)
	}
	return b
}

func toIface(p []eval.Value) []interface{} {
	r := make([]interface{}, len(p))
	for i, v := range p {
		r[i] = v
	}
	return r
}

// assign variable keys in the harness tree as the configuration defines them
func (b *Built) setKeys(t *GT, undefined bool) {
	if t.Kind == "var" {
		if undefined {
			t.Key = -32768
		} else {
			t.Key = b.Keys[t.Name]
		}
	}
	for _, c := range t.Ch {
		b.setKeys(c, undefined)
	}
}

// ---------- conversion of the implementation's trees and programs ----------

func astToGT(a *eval.VerifAst) *GT {
	switch a.Type {
	case 1:
		return &GT{Kind: "const", Val: a.Value}
	case 2:
		return &GT{Kind: "var", Name: a.Value.(string), Key: a.VarKey}
	case 3, 4:
		t := &GT{Kind: "op", Name: a.Value.(string), Fast: a.Type == 4}
		for _, c := range a.Children {
			t.Ch = append(t.Ch, astToGT(c))
		}
		return t
	case 5:
		if fmt.Sprint(a.Value) == "if" && len(a.Children) == 4 {
			return gif(astToGT(a.Children[0]), astToGT(a.Children[1]), astToGT(a.Children[2]))
		}
		return &GT{Kind: "op", Name: "?cond:" + fmt.Sprint(a.Value)}
	}
	return &GT{Kind: "op", Name: fmt.Sprintf("?type%d", a.Type)}
}

func kindCoq(typ uint8, val eval.Value, key int16) string {
	switch typ {
	case 1:
		return "KConst (" + coqValue(val) + ")"
	case 2:
		return "KVar " + coqStr(val.(string)) + " " + coqZ(int64(key))
	case 3:
		return "KOp " + coqStr(val.(string))
	case 4:
		return "KFast " + coqStr(val.(string))
	case 5:
		if fmt.Sprint(val) == "if" {
			return "KIf"
		}
		return "KFi"
	case 7:
		d := val.(eval.LoopEventData)
		return "KEvent " + coqZ(int64(d.CurtIdx)) + " (" + kindCoq(uint8(d.NodeType), d.NodeValue, key) + ")"
	}
	return "KConst VNil"
}

func progCoq(p eval.VerifProg) string {
	ns := make([]string, len(p.Nodes))
	for i, n := range p.Nodes {
		ns[i] = fmt.Sprintf("{| kind := %s; childCnt := %s; scF := %s; scT := %s; scIdx := %s; osTop := %s; pAnd := %s; pOr := %s |}",
			kindCoq(n.Type, n.Value, n.VarKey), coqZ(int64(n.ChildCnt)), coqBool(n.ScF), coqBool(n.ScT), coqZ(int64(n.ScIdx)),
			coqZ(int64(n.OsTop)), coqBool(n.PAnd), coqBool(n.POr))
	}
	ps := make([]int64, len(p.Parents))
	for i, x := range p.Parents {
		ps[i] = int64(x)
	}
	return fmt.Sprintf("{| nodes := %s; parents := %s; maxStack := %s |}", coqList(ns), coqZList(ps), coqZ(int64(p.MaxStack)))
}

// ---------- running the implementation ----------

type EvalObs struct {
	Plain   []Obs // fetches and registered-operator calls, in order
	Events  []Obs // OP_EXEC and LOOP events, in order (event mode)
	Val     interface{}
	Err     error
	Panic   interface{}
}

func (o *EvalObs) outcomeCoq() string {
	if o.Panic != nil {
		return "MPanic 0"
	}
	if o.Err != nil {
		return "MErr (" + coqErr(o.Err) + ")"
	}
	return "MVal (" + coqValue(o.Val) + ")"
}
func (o *EvalObs) Coq() string {
	return fmt.Sprintf("(%s, %s, %s)", coqObsList(o.Plain), coqObsList(o.Events), o.outcomeCoq())
}
func (o *EvalObs) String() string {
	if o.Panic != nil {
		return fmt.Sprintf("panic: %v", o.Panic)
	}
	if o.Err != nil {
		return "error: " + o.Err.Error()
	}
	return fmt.Sprintf("%v", o.Val)
}

func eventsToObs(evs []eval.Event, keys map[string]int16, undefined bool) []Obs {
	var res []Obs
	for _, ev := range evs {
		switch ev.EventType {
		case eval.OpExecEvent:
			d := ev.Data.(eval.OpEventData)
			res = append(res, Obs{Kind: "call", Name: d.OpName, Fast: d.IsFastOp, Args: toIface(d.Params), Res: d.Res, Err: d.Err})
		case eval.LoopEvent:
			d := ev.Data.(eval.LoopEventData)
			var key int16
			if d.NodeType == eval.VariableNode {
				if undefined {
					key = -32768
				} else {
					key = keys[d.NodeValue.(string)]
				}
			}
			res = append(res, Obs{Kind: "loop", Pos: d.CurtIdx, Of: kindCoq(uint8(d.NodeType), d.NodeValue, key), Stack: toIface(ev.Stack)})
		}
	}
	return res
}

// runExpr evaluates e (Eval or TryEval) with a recording fetcher; events are read after the call returns
// from a channel large enough never to block (a retaining consumer).
func runExpr(e *eval.Expr, b *Built, rc *RunCfg, f *RecFetcher, try bool) (o *EvalObs) {
	o = &EvalObs{}
	f.Rec = &Recorder{}
	nn := len(eval.VerifExport(e).Nodes)
	ch := make(chan eval.Event, 4*nn+64)
	e.EventChan = ch
	wdMu.Lock()
	lsrc := lastSource
	wdMu.Unlock()
	guarded(map[string]interface{}{"call": map[bool]string{false: "Eval", true: "TryEval"}[try], "last_compiled_source": lsrc, "config": rc.Describe(), "binding": fmt.Sprint(f.Vals), "available": fmt.Sprint(f.Avail)}, func() {
		defer func() {
			if p := recover(); p != nil {
				o.Panic = p
			}
		}()
		ctx := &eval.Ctx{VariableFetcher: f}
		if try {
			o.Val, o.Err = e.TryEval(ctx)
		} else {
			o.Val, o.Err = e.Eval(ctx)
		}
	})
	close(ch)
	var evs []eval.Event
	for ev := range ch {
		evs = append(evs, ev)
	}
	e.EventChan = nil
	o.Plain = f.Rec.Log
	o.Events = eventsToObs(evs, b.Keys, rc.Undefined)
	return o
}

var lastSource string

func compileSafe(conf *eval.Config, src string) (e *eval.Expr, err error, pan interface{}) {
	wdMu.Lock()
	lastSource = src
	wdMu.Unlock()
	guarded(map[string]interface{}{"call": "Compile", "source": src}, func() {
		defer func() {
			if p := recover(); p != nil {
				pan = p
			}
		}()
		e, err = eval.Compile(conf, src)
	})
	return
}

var operandLimitPrefix string

func cerrCode(err error) int {
	if err == nil {
		return 0
	}
	// which limit was hit: the operand limit is recognised by the message the current tree gives for 128 and 129
	// operands (probed at start-up); the node limits by the limit the message names, not by its wording
	m := err.Error()
	switch {
	case operandLimitPrefix != "" && strings.HasPrefix(m, operandLimitPrefix):
		return 1
	case operandLimitPrefix == "" && strings.HasPrefix(m, "operators cannot exceed a maximum of 127 parameters"):
		return 1
	case strings.Contains(m, "32767") && strings.Contains(m, "event"):
		return 3
	case strings.Contains(m, "32767"):
		return 2
	}
	return 9
}
