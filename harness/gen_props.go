package main

import (
	"sort"
	"fmt"
	"math/rand"
	"strings"
	"time"

	eval "github.com/onheap/eval"
)

const genImports = "Require Import Base Opcode Tables Ops Tree Gen TestEnv GenCorr."

// scriptedSource makes rand.Intn(n) return draws[i] mod n (draws < 2^20): Int63 = v << 32.
type scriptedSource struct {
	draws []int64
	pos   int
}

func (s *scriptedSource) Int63() int64 {
	var v int64
	if s.pos < len(s.draws) {
		v = s.draws[s.pos]
	}
	s.pos++
	return v << 32
}
func (s *scriptedSource) Seed(int64) {}

func zeroKeys(t *GT) {
	if t.Kind == "var" {
		t.Key = 0
	}
	for _, c := range t.Ch {
		zeroKeys(c)
	}
}

func init() {
	register(&PropDef{
		ID:          "C20",
		Rule:        "GenerateRandomExpr at levels 0..40 under a scripted rand.Source (rand.Intn(n) = draw mod n, checked at start-up against math/rand), every combination of EnableVariable/EnableCondition/EnableTryEval, both result types, variable lists passed in fixed order: Go's expression (parsed) and reported result are compared with the model `generate` on the same draws; in addition Go's expression is compiled and evaluated by Go (Eval without DNE variables, TryEval with them) and must return the reported result without error; scripted thin chains through levels 64..80; DNE variables left unbound AND bound to the DNE value through the library's own context; a third of the cases with one key assigned by hand past the number of variables before the bulk registration; non-trivial = level >= 1; distinct = distinct (options, level, draws)",
		Assumptions: []string{"math/rand.Intn on a Source returning v<<32 with v < 2^20 yields v mod n (verified by a sweep in every run)"},
		Behav:       []int{22}, Fidelity: []int{21, 23}, CodeText: map[int]string{21: "generated expression differs from the model's on the same draws", 22: "reported result differs from the model's", 23: "text of the generated expression differs from the model's text of the generated tree"},
		Gen: func(c *RunCtx) []*Batch {
			r := c.R
			// sanity of the scripted source
			for n := 1; n <= 130; n++ {
				for _, v := range []int64{0, 1, 2, 3, 7, 99, 100, 1023, 1 << 19, 1<<20 - 1} {
					rr := rand.New(&scriptedSource{draws: []int64{v}})
					if got := rr.Intn(n); got != int(v%int64(n)) {
						fmt.Printf("INFRASTRUCTURE: scripted source: Intn(%d) with draw %d = %d\n", n, v, got)
						c.Notes = append(c.Notes, "scripted source mismatch")
						return nil
					}
				}
			}
			b := &Batch{Prop: "C20", Name: "generate", Imports: genImports, CaseType: "gcase", ChkFn: "chk_gen", OutFn: "diag_gen", Codes: true, Shard: 150}
			n := c.N(1500, 60000)
			knownBare := 0
			for k := 0; k < n; k++ {
				level := r.Intn(8)
				if r.Intn(10) == 0 {
					level = 8 + r.Intn(33)
				}
				deep := k%60 == 59
				if deep {
					level = 64 + r.Intn(17) // deeper than any fixed-size per-level table
				}
				nd := 200 + level*400
				draws := make([]int64, nd)
				for i := range draws {
					draws[i] = int64(r.Intn(1 << 20))
				}
				if deep {
					// a thin chain through every level (the tree stays small): at level n an operator with two operands,
					// the first a leaf, the second the chain of level n-1
					var d []int64
					for n := level; n >= 1; n-- {
						d = append(d, 5, 0, 0, 5, int64(r.Intn(100)), int64(n-1))
					}
					d = append(d, 5, int64(r.Intn(100)))
					copy(draws, d)
				}
				enVar, enCond, enTry := r.Bool(), r.Bool(), r.Bool()
				isBool := r.Bool()
				var nums, bools, dnes []eval.GenExprResult
				vals := map[string]interface{}{}
				for i := 0; i < r.Intn(4); i++ {
					name := fmt.Sprintf("n%d", i)
					v := int64(r.Intn(7)) - 3
					nums = append(nums, eval.GenExprResult{Expr: name, Res: v})
					vals[name] = v
				}
				for i := 0; i < r.Intn(4); i++ {
					name := fmt.Sprintf("b%d", i)
					v := r.Bool()
					bools = append(bools, eval.GenExprResult{Expr: name, Res: v})
					vals[name] = v
				}
				for i := 0; i < r.Intn(3); i++ {
					name := fmt.Sprintf("d%d", i)
					dnes = append(dnes, eval.GenExprResult{Expr: name, Res: eval.DNE})
				}
				opts := []eval.GenExprOption{func(cf *eval.GenExprConfig) {
					cf.NumVariables, cf.BoolVariables, cf.DneVariables = nums, bools, dnes
				}}
				if k%4 == 3 {
					// the public GenVariables option: at most one variable of each kind (so that Go's map order cannot
					// matter), numbers supplied in the dynamic types Eval accepts (int, int8, int32, uint8, uint32, Duration)
					nums, bools, dnes = nums[:minInt(1, len(nums))], bools[:minInt(1, len(bools))], dnes[:minInt(1, len(dnes))]
					gm := map[string]interface{}{}
					vals = map[string]interface{}{}
					for _, x := range nums {
						z := x.Res.(int64)
						var raw interface{} = z
						switch r.Intn(7) {
						case 0:
							raw = int(z)
						case 1:
							raw = int8(z)
						case 2:
							raw = int32(z)
						case 3:
							if z >= 0 {
								raw = uint8(z)
							}
						case 4:
							if z >= 0 {
								raw = uint32(z)
							}
						case 5:
							raw = time.Duration(z) * time.Second
						}
						gm[x.Expr], vals[x.Expr] = raw, raw
					}
					for _, x := range bools {
						gm[x.Expr], vals[x.Expr] = x.Res, x.Res
					}
					for _, x := range dnes {
						gm[x.Expr] = eval.DNE
					}
					if r.Intn(3) == 0 {
						// the option value is built first, from a map that still holds OTHER values; the caller then
						// stores the values it evaluates with: the generator reads the map when it generates
						early := map[string]interface{}{}
						for kk, v := range gm {
							switch v.(type) {
							case bool:
								early[kk] = !v.(bool)
							default:
								if v == eval.DNE {
									early[kk] = eval.DNE
								} else {
									early[kk] = int64(41)
								}
							}
						}
						opts = []eval.GenExprOption{eval.GenVariables(early)}
						for kk, v := range gm {
							early[kk] = v
						}
					} else {
						opts = []eval.GenExprOption{eval.GenVariables(gm)}
					}
				}
				if enVar {
					opts = append(opts, eval.EnableVariable)
				}
				if enCond {
					opts = append(opts, eval.EnableCondition)
				}
				if enTry {
					opts = append(opts, eval.EnableTryEval)
				}
				gt := eval.GenBool
				if !isBool {
					gt = eval.GenNumber
				}
				opts = append(opts, eval.GenType(gt))
				src := &scriptedSource{draws: draws}
				var res eval.GenExprResult
				var pan interface{}
				guarded(map[string]interface{}{"call": "GenerateRandomExpr", "level": level, "draws": fmt.Sprint(draws)}, func() {
					defer func() { pan = recover() }()
					res = eval.GenerateRandomExpr(level, rand.New(src), opts...)
				})
				if pan != nil {
					c.Direct = append(c.Direct, DirectViolation{What: fmt.Sprintf("GenerateRandomExpr panicked: %v", pan), Sig: "c20-panic", Sample: fmt.Sprint(level, enVar, enCond, enTry)})
					continue
				}
				if src.pos > len(draws) {
					c.Notes = append(c.Notes, "draw budget exceeded; case skipped")
					continue
				}
				// the property itself, on the real code: the expression compiles with the given variables and evaluates to Res
				conf := eval.NewConfig()
				all := map[string]interface{}{}
				for kk, v := range vals {
					all[kk] = v
				}
				for _, d := range dnes {
					all[d.Expr] = 0
				}
				if len(vals) >= 2 && k%3 == 0 {
					// the caller assigned one key by hand, past the number of variables: the others must get keys nobody owns
					names := make([]string, 0, len(vals))
					for kk := range vals {
						names = append(names, kk)
					}
					sort.Strings(names)
					conf.VariableKeyMap[names[0]] = eval.VariableKey(len(all)/2 + 2)
				}
				eval.RegVarAndOp(all)(conf)
				e, err, cpan := compileSafe(conf, res.Expr)
				if err != nil || cpan != nil {
					sig := "c20-compile"
					if level == 0 && !strings.Contains(res.Expr, "(") && cpan == nil {
						sig = "c20-level0-bare-leaf"
						knownBare++
						if knownBare > 1 {
							continue
						}
					}
					c.Direct = append(c.Direct, DirectViolation{What: fmt.Sprintf("generated expression does not compile: %v %v", err, cpan), Sig: sig, Sample: res.Expr})
					continue
				}
				ctx := eval.NewCtxFromVars(conf, vals)
				usesDNE := enTry && len(dnes) > 0
				var got eval.Value
				var gerr error
				if usesDNE {
					// map fetcher semantics by name: d* variables are simply not bound
					ctx = &eval.Ctx{VariableFetcher: eval.NewMapVarFetcher(vals)}
					got, gerr = e.TryEval(ctx)
				} else {
					got, gerr = e.Eval(ctx)
				}
				if usesDNE && gerr == nil && valEq(got, res.Res) {
					// the same with the DNE variables BOUND to the DNE value in one value map (the map form GenVariables
					// consumes), through the library's own context over the registered keys
					withDNE := map[string]interface{}{}
					for kk, v := range vals {
						withDNE[kk] = v
					}
					for _, d := range dnes {
						withDNE[d.Expr] = eval.DNE
					}
					guarded(map[string]interface{}{"call": "TryEval (DNE-valued bindings)", "source": res.Expr}, func() {
						defer func() {
							if p := recover(); p != nil {
								gerr = fmt.Errorf("panic: %v", p)
							}
						}()
						got, gerr = e.TryEval(eval.NewCtxFromVars(conf, withDNE))
					})
				}
				if gerr != nil || !valEq(got, res.Res) {
					c.Direct = append(c.Direct, DirectViolation{What: fmt.Sprintf("generated expression evaluates to %v / %v but the generator reports %v", got, gerr, res.Res), Sig: "c20-value",
						Sample: map[string]interface{}{"expr": clip(res.Expr, 400), "level": level}})
				}
				// against the model
				ast, _, perr := eval.VerifParse(conf, res.Expr, false)
				if perr != nil {
					continue
				}
				gtr := astToGT(ast)
				zeroKeys(gtr)
				lst := func(l []eval.GenExprResult) string {
					it := make([]string, len(l))
					for i, x := range l {
						it[i] = fmt.Sprintf("(%s, %s)", coqStr(x.Expr), coqValue(x.Res))
					}
					return coqList(it)
				}
				used := draws
				if src.pos < len(used) {
					used = used[:src.pos]
				}
				term := fmt.Sprintf("{| gc_cfg := {| g_var := %s; g_cond := %s; g_try := %s; g_nums := %s; g_bools := %s; g_dnes := %s |}; gc_bool := %s; gc_level := %d%%nat; gc_stream := %s; gc_tree := %s; gc_text := %s; gc_res := %s |}",
					coqBool(enVar), coqBool(enCond), coqBool(enTry), lst(nums), lst(bools), lst(dnes), coqBool(isBool), level, coqZList(used), gtr.Coq(), coqStr(res.Expr), coqValue(res.Res))
				tags := []string{fmt.Sprintf("level:%s", bucket(level)), fmt.Sprintf("opts:var=%v,cond=%v,try=%v", enVar, enCond, enTry)}
				if usesDNE {
					tags = append(tags, "dne-vars")
				}
				if res.Res == eval.DNE {
					tags = append(tags, "result:DNE")
				}
				b.Cases = append(b.Cases, Case{Term: term, Key: term, Nontrivial: level >= 1, Tags: tags,
					Sample: map[string]interface{}{"level": level, "expr": clip(res.Expr, 200), "result": fmt.Sprint(res.Res), "draws_used": src.pos}})
			}
			return []*Batch{b}
		},
	})
}
