package main

import (
	"sort"
	"fmt"
	"strings"

	eval "github.com/onheap/eval"
)

type subsetRun struct {
	val  interface{}
	err  error
	pan  interface{}
	dump string
	cerr error
}

func runSubset(t *GT, rc *RunCfg, bind *Binding, directive string) subsetRun {
	if rc.VarNames == nil {
		// register the variables of the expression (without this every expression with a variable is a compile error)
		vs := map[string]bool{}
		collectVars(t, vs)
		for n := range vs {
			rc.VarNames = append(rc.VarNames, n)
		}
		sort.Strings(rc.VarNames)
	}
	b := rc.Build()
	src := directive + t.Src()
	e, err, pan := compileSafe(b.Conf, src)
	if pan != nil {
		return subsetRun{pan: pan}
	}
	if err != nil {
		return subsetRun{cerr: err}
	}
	f := &RecFetcher{Vals: bind.Vals}
	o := runExpr(e, b, rc, f, false)
	return subsetRun{val: o.Val, err: o.Err, pan: o.Panic, dump: eval.Dump(e)}
}

func directiveFor(mask int, r *Rand) string {
	// directives count anywhere in the leading comment block: after blank lines, white space, ordinary comments
	lead := []string{"", "", "\n", " \t", "; an ordinary comment first\n", ";; note\n\n"}[r.Intn(6)]
	return lead + directiveBody(mask, r)
}

// every switch spelled out (for a configuration whose own switches are anything at all)
func directiveFull(mask int, r *Rand) string {
	var parts []string
	for i, n := range optNames {
		parts = append(parts, fmt.Sprintf("%s: %v", n, mask&(1<<i) != 0))
	}
	if r.Bool() {
		return ";;;; " + strings.Join(parts[:2], ", ") + "\n;;;; " + strings.Join(parts[2:], ",") + "\n"
	}
	return ";;;; " + strings.Join(parts, ", ") + "\n"
}

func directiveBody(mask int, r *Rand) string {
	var parts []string
	for i, n := range optNames {
		on := mask&(1<<i) != 0
		if !on || r.Bool() {
			parts = append(parts, fmt.Sprintf("%s: %v", n, on))
		}
	}
	if r.Intn(4) == 0 {
		// `optimize:<bool>` first, the exceptions after it on the SAME line: ;;;; optimize:true, reordering:false
		base := r.Bool()
		ents := []string{fmt.Sprintf("optimize:%v", base)}
		for i, n := range optNames {
			if on := mask&(1<<i) != 0; on != base {
				ents = append(ents, fmt.Sprintf("%s:%v", n, on))
			}
		}
		return ";;;; " + strings.Join(ents, ", ") + "\n"
	}
	if mask == 0 && r.Bool() {
		return ";;;; optimize:false\n"
	}
	if mask == 15 && r.Bool() {
		return ";;;; optimize : true\n; an ordinary comment\n"
	}
	if len(parts) == 0 {
		return "; no directives\n"
	}
	if r.Bool() && len(parts) > 1 {
		return ";;;; " + strings.Join(parts[:1], ",") + "\n;;;;" + strings.Join(parts[1:], " , ") + "\n"
	}
	return ";;;; " + strings.Join(parts, ", ") + "\n"
}

// wideNested builds (not|if|= ... (and (and v..) (and v..) ...)) over boolean variables and constants
func wideNested(r *Rand) *GT {
	name := []string{"and", "or", "&&", "||"}[r.Intn(4)]
	groups := 2 + r.Intn(3)
	per := 40 + r.Intn(70)
	leaf := func() *GT {
		if r.Intn(3) == 0 {
			return gconst(name == "and" || name == "&&")
		}
		return gvar(boolVars[r.Intn(len(boolVars))])
	}
	var gs []*GT
	for g := 0; g < groups; g++ {
		ch := make([]*GT, per)
		for i := range ch {
			ch[i] = leaf()
		}
		gs = append(gs, gop(name, ch...))
	}
	w := gop(name, gs...)
	switch r.Intn(3) {
	case 0:
		return gop("not", w)
	case 1:
		return gif(w, gconst(int64(1)), gconst(int64(0)))
	default:
		return gop("=", w, gconst(true))
	}
}

func valEq(a, b interface{}) bool { return coqValue(a) == coqValue(b) }

func init() {
	register(&PropDef{
		ID:   "C02",
		Rule: "random typed trees (no failing variables; operators may fail, e.g. division by zero behind guards) x ALL 16 optimisation subsets set programmatically and again by `;;;;` directive comments x cost maps (integers incl. negative, zero, 2^40) x stateless declarations x bindings of all variables: (a) all configurations that return a value return the same one, (b) with Reordering off every configuration returns the unoptimised value when that evaluation succeeds, (c) directive and programmatic configuration give the same Dump and result, (d) Go's optimised tree equals the model's `optimize` and its Eval equals `sem` of it, (e) ONE configuration object compiles directive-carrying sources and then the directive-free source (directives must not stick); constants of the configuration of a non-canonical Go type (a plain int, modelled as an opaque value); operators registered under built-in names; non-trivial = at least two configurations returned a value; distinct = distinct (source, costs, binding)",
		Assumptions: []string{"cost maps are integer-valued (exact in float64); NaN/Inf costs are covered by the theorem for arbitrary permutations, not by the correspondence"},
		Behav:       []int{5, 2, 17}, Fidelity: []int{1, 3, 4, 8, 9, 10, 15}, Ignore: []int{6, 7, 50, 16}, CodeText: evalCodeText,
		Gen: func(c *RunCtx) []*Batch {
			r := c.R
			b := evalBatch("C02", "optimise")
			probeNonBoolOperand(c)
			n := c.N(260, 12000)
			groups, nontriv := 0, 0
			for k := 0; k < n; k++ {
				gc := randGenCfg(r)
				gc.FailVars = false
				gc.WrongType = []int{0, 0, 0, 3}[r.Intn(4)]
				gc.Wide = 0
				t := randTree(r, gc)
				if k%40 == 7 {
					// nested same-kind and/or groups that flatten to 100..300 operands, consumed by an enclosing operator:
					// legal as written; subsets with ReduceNesting may reject it (capacity), none may change the value
					t = wideNested(r)
				}
				if k%5 == 3 {
					t = logicNest(r, 2+r.Intn(2))
					if t.Kind != "op" {
						t = gop("c_id", t)
					}
				}
				st, costs := randStateless(r), randCosts(r)
				// a sixth of the groups: operators registered under built-in names, half of them also DECLARED stateless -
				// the built-in must win at compile time (folding) and at run time alike
				shadow := r.Intn(6) == 0
				if shadow {
					t = constRichTree(r)
				}
				if shadow && r.Bool() {
					st = append(append([]string{}, st...), "+", "eq", "not", "in", "and")
				}
				bind := randBinding(r)
				var runs [16]subsetRun
				succ := 0
				for mask := 0; mask < 16; mask++ {
					rc := &RunCfg{Opts: optSubset(mask, r.Bool()), Stateless: st, Costs: costs, Shadow: shadow}
					runs[mask] = runSubset(t, rc, bind, "")
					if runs[mask].pan != nil {
						c.Direct = append(c.Direct, DirectViolation{What: fmt.Sprintf("panic under subset %d: %v", mask, runs[mask].pan), Sig: "c02-panic", Sample: t.Src()})
						continue
					}
					if runs[mask].cerr == nil && runs[mask].err == nil {
						succ++
					}
					// the same subset by directive comments
					var rd subsetRun
					if r.Intn(3) == 0 {
						// the configuration itself has the switches explicitly the OTHER way round (or all off): the directives decide
						base := optSubset([]int{0, 15 ^ mask}[r.Intn(2)], true)
						rd = runSubset(t, &RunCfg{Opts: base, Stateless: st, Costs: costs, Shadow: shadow}, bind, directiveFull(mask, r))
					} else {
						rd = runSubset(t, &RunCfg{Opts: map[string]bool{}, Stateless: st, Costs: costs, Shadow: shadow}, bind, directiveFor(mask, r))
					}
					if rd.pan == nil && runs[mask].cerr == nil && rd.cerr == nil {
						if rd.dump != runs[mask].dump || (rd.err == nil) != (runs[mask].err == nil) || (rd.err == nil && !valEq(rd.val, runs[mask].val)) {
							c.Direct = append(c.Direct, DirectViolation{What: fmt.Sprintf("subset %d set by directives differs from the same subset set by options", mask), Sig: "c02-directive",
								Sample: map[string]interface{}{"source": t.Src(), "dump_options": runs[mask].dump, "dump_directive": rd.dump}})
						}
					} else if (rd.cerr == nil) != (runs[mask].cerr == nil) {
						c.Direct = append(c.Direct, DirectViolation{What: "directive form compiles differently", Sig: "c02-directive-compile", Sample: t.Src()})
					}
				}
				// one configuration OBJECT compiled again and again: a source's directives hold for that compilation only -
				// the next source without directives is compiled under the configuration's own switches again
				if r.Intn(3) == 0 {
					home := r.Intn(16)
					rcS := &RunCfg{Opts: optSubset(home, true), Stateless: st, Costs: costs, Shadow: shadow}
					vs := map[string]bool{}
					collectVars(t, vs)
					for n := range vs {
						rcS.VarNames = append(rcS.VarNames, n)
					}
					sort.Strings(rcS.VarNames)
					bS := rcS.Build()
					for k := 0; k < 3; k++ {
						m := r.Intn(16)
						d := directiveFor(m, r)
						if r.Bool() {
							d = []string{"; a rule\n", ";; note\n\n", ""}[r.Intn(3)] + directiveFull(m, r)
						}
						compileSafe(bS.Conf, d+t.Src())
					}
					if e, err, pan := compileSafe(bS.Conf, t.Src()); pan == nil && err == nil && runs[home].cerr == nil && runs[home].pan == nil {
						if got := eval.Dump(e); got != runs[home].dump {
							c.Direct = append(c.Direct, DirectViolation{What: fmt.Sprintf("a configuration with subset %d compiles a directive-free source differently after it compiled sources WITH directives (their directives stuck to the caller's Config)", home), Sig: "c02-sticky-directive",
								Sample: map[string]interface{}{"source": t.Src(), "dump_fresh_config": runs[home].dump, "dump_reused_config": got}})
						}
					}
				}
				groups++
				if succ >= 2 {
					nontriv++
				}
				// (a) agreement of values
				first := -1
				for mask := 0; mask < 16; mask++ {
					if runs[mask].cerr != nil || runs[mask].err != nil || runs[mask].pan != nil {
						continue
					}
					if first < 0 {
						first = mask
					} else if !valEq(runs[mask].val, runs[first].val) {
						c.Direct = append(c.Direct, DirectViolation{What: fmt.Sprintf("subsets %d and %d both return a value but not the same: %v vs %v", first, mask, runs[first].val, runs[mask].val), Sig: "c02-values",
							Sample: map[string]interface{}{"source": t.Src(), "binding": fmt.Sprint(bind.Vals), "costs": costs}})
					}
				}
				// (b) reordering off: the unoptimised value. Outside the clause's domain - an and/or with a NON-boolean operand,
				// e.g. (|| 3 b): unoptimised evaluation never applies the operator when the last operand decides, a fast
				// operator applies it to both leaves and reports the type error - the difference is a recorded finding of the
				// pinned tree (known_findings.json), reported under its own signature
				if runs[0].cerr == nil && runs[0].err == nil && runs[0].pan == nil {
					sigB := "c02-reorder-off"
					if !andOrWellTyped(t) {
						sigB = "c02-nonboolean-operand-before-deciding-last-operand"
					}
					for mask := 0; mask < 8; mask++ {
						if runs[mask].cerr != nil && cerrCode(runs[mask].cerr) != 9 && cerrCode(runs[mask].cerr) != 0 {
							continue // rejected by a capacity limit after flattening: no value is returned, none is changed
						}
						if runs[mask].cerr != nil || runs[mask].err != nil || !valEq(runs[mask].val, runs[0].val) {
							c.Direct = append(c.Direct, DirectViolation{What: fmt.Sprintf("Reordering off, subset %d: unoptimised evaluation returns %v but this configuration returns %v / %v", mask, runs[0].val, runs[mask].val, runs[mask].err), Sig: sigB,
								Sample: map[string]interface{}{"source": t.Src(), "binding": fmt.Sprint(bind.Vals)}})
						}
					}
				}
				// (d) model fidelity on three subsets
				for _, mask := range []int{15, r.Intn(16), r.Intn(16)} {
					rc := &RunCfg{Opts: optSubset(mask, r.Bool()), Stateless: st, Costs: costs, Shadow: shadow}
					addEval(c, b, &EvalSpec{Tree: t, RC: rc, Bind: bind, DoEval: true, Tags: []string{fmt.Sprintf("subset:%d", mask)}})
				}
			}
			c.Extra["configuration_groups"] = map[string]interface{}{"trees_x_bindings": groups, "each": "16 subsets by options + 16 by directives", "with_two_or_more_values": nontriv}
			c.ExploreEvals += groups * 32
			c.ExploreDistinct += nontriv
			return []*Batch{b}
		},
	})
	register(&PropDef{
		ID:   "C10",
		Rule: "trees rich in constant sub-expressions mixing built-in operators, registered operators declared stateless, registered operators not declared (incl. zero-operand ones) and names declared but not registered, failing constant sub-expressions (division by zero, bad version strings) behind and/or/if guards, x optimisation subsets x 1..5 repeated evaluations, many configurations built in one process; the operators invoked with a nil context during Compile are compared with the model's constant-folding log, Go's optimised tree with the model's, and every evaluation's operator calls with `sem` (so an undeclared operator must be called again in every evaluation); non-trivial = a registered operator occurs; distinct = distinct (source, config)",
		Assumptions: []string{"registered operators record their own invocations; a nil *Ctx marks a compile-time invocation"},
		Behav:       []int{9, 15, 5, 2}, Fidelity: []int{1, 3, 4, 8, 10}, Ignore: []int{6, 7, 50}, CodeText: evalCodeText,
		Gen: func(c *RunCtx) []*Batch {
			r := c.R
			b := evalBatch("C10", "folding")
			n := c.N(1700, 40000)
			constGen := func() *GT { return constRichTree(r) }
			for k := 0; k < n; k++ {
				t := constGen()
				if r.Intn(6) == 0 { // failing constant behind a guard
					t = gop(pick(r, andNames), gop("!=", gvar("i0"), gconst(int64(0))), gop(">", gop("/", gconst(int64(10)), gconst(int64(0))), gconst(int64(1))), t)
				}
				mask := []int{15, 1, r.Intn(16)}[r.Intn(3)]
				rc := &RunCfg{Opts: optSubset(mask, r.Bool()), Stateless: randStatelessHeavy(r), Shadow: r.Intn(5) == 0}
				if rc.Shadow && r.Bool() {
					rc.Stateless = append(rc.Stateless, "+", "eq", "not", "in", "and")
				}
				if r.Intn(4) == 0 { // a derived configuration with a sibling that declares the other operators
					rc.Sibling = []string{}
					for _, nme := range testOpNames {
						declared := false
						for _, s := range rc.Stateless {
							declared = declared || s == nme
						}
						if !declared {
							rc.Sibling = append(rc.Sibling, nme)
						}
					}
					rc.BaseCut, rc.ViaCopy = r.Intn(len(rc.Stateless)+1), r.Bool()
				}
				bind := randBinding(r)
				addEval(c, b, &EvalSpec{Tree: t, RC: rc, Bind: bind, DoEval: true, Tags: []string{fmt.Sprintf("subset:%d", mask)}})
				// repeated evaluations: every evaluation calls the same registered operators again
				if r.Intn(3) == 0 {
					bl := rc.Build()
					bl.setKeys(t, false)
					e, err, _ := compileSafe(bl.Conf, t.Src())
					if err == nil && e != nil {
						var firstLog string
						for i := 0; i < 2+r.Intn(4); i++ {
							o := runExpr(e, bl, rc, &RecFetcher{Vals: bind.Vals}, false)
							lg := fmt.Sprint(o.Plain) + "=>" + o.String()
							if i == 0 {
								firstLog = lg
							} else if lg != firstLog {
								c.Direct = append(c.Direct, DirectViolation{What: "repeated evaluation of one compiled expression does not repeat the same operator calls", Sig: "c10-repeat",
									Sample: map[string]interface{}{"source": t.Src(), "first": firstLog, "later": lg}})
								break
							}
						}
					}
				}
			}
			return []*Batch{b}
		},
	})
	register(&PropDef{
		ID:   "C16",
		Rule: "and/or nodes with 2..127 operands, many of equal estimated cost (so a non-stable sort is visible above 12 elements), nested under other operators and `if`, x cost maps (per-name, `variable`/`operator` defaults, negative, zero, 2^40) and pairs of cost maps differing in one entry, Reordering alone and with the other optimisations; Go's optimised tree (operand order of every node) is compared with the model's stable cost-directed `reorder`; non-trivial = some and/or node has two operands of equal cost or the order changed; distinct = distinct (source, costs)",
		Assumptions: []string{"integer-valued costs (exact in float64)"},
		Behav:       []int{1, 5, 2}, Fidelity: []int{3, 4, 8, 9, 10, 15}, Ignore: []int{6, 7, 50}, CodeText: evalCodeText,
		Gen: func(c *RunCtx) []*Batch {
			r := c.R
			b := evalBatch("C16", "reorder")
			b.Shard = 150
			n := c.N(500, 25000)
			for k := 0; k < n; k++ {
				gc := GenCfg{MaxDepth: 1 + r.Intn(3), MaxWidth: 5, Custom: r.Bool(), Ifs: r.Bool(), Wide: []int{0, 10, 30}[r.Intn(3)], OnlyBoolOps: r.Intn(3) != 0, UnaryBool: r.Intn(6) == 0}
				t := randTree(r, gc)
				if r.Intn(4) == 0 { // a wide node of variables with ties
					w := 13 + r.Intn(60)
					ch := make([]*GT, w)
					for i := range ch {
						ch[i] = gvar(boolVars[r.Intn(4)])
						if r.Intn(5) == 0 {
							ch[i] = gop("=", gvar(intVars[r.Intn(4)]), gconst(int64(r.Intn(3))))
						}
					}
					t = gop(pick(r, append(append([]string{}, andNames...), orNames...)), ch...)
				}
				costs := randCosts(r)
				if costs == nil && r.Bool() {
					costs = map[string]int64{boolVars[r.Intn(4)]: []int64{-3, 0, 8, 100, 1 << 40}[r.Intn(5)]}
				}
				mask := []int{8, 15, 8 | r.Intn(8)}[r.Intn(3)]
				bind := randBinding(r)
				addEval(c, b, &EvalSpec{Tree: t, RC: &RunCfg{Opts: optSubset(mask, false), Costs: costs}, Bind: bind, DoEval: true, Tags: []string{fmt.Sprintf("subset:%d", mask)}})
				if k%4 == 0 {
					// the same subset chosen by `;;;;` directives over a configuration whose own switches are all OFF
					// (Reordering included) but which carries the cost map: the same program
					byOpt := runSubset(t, &RunCfg{Opts: optSubset(mask, true), Costs: costs}, bind, "")
					byDir := runSubset(t, &RunCfg{Opts: optSubset(0, true), Costs: costs}, bind, directiveFull(mask, r))
					if byOpt.pan == nil && byDir.pan == nil && byOpt.cerr == nil && byDir.cerr == nil && byOpt.dump != byDir.dump {
						c.Direct = append(c.Direct, DirectViolation{What: "reordering switched on by a directive over a configuration that has it off does not use the configured costs", Sig: "c16-directive-costs",
							Sample: map[string]interface{}{"source": t.Src(), "costs": costs, "by_options": clip(byOpt.dump, 300), "by_directive": clip(byDir.dump, 300)}})
					}
				}
				// the same tree with one cost entry raised
				if costs != nil && r.Bool() {
					c2 := map[string]int64{}
					for kk, v := range costs {
						c2[kk] = v
					}
					c2[boolVars[r.Intn(4)]] = []int64{50, 1000, 1 << 40}[r.Intn(3)]
					addEval(c, b, &EvalSpec{Tree: t, RC: &RunCfg{Opts: optSubset(mask, false), Costs: c2}, Bind: bind, DoEval: true, Tags: []string{"cost-raised"}})
				}
			}
			nestedSortLaw(c)
			return []*Batch{b}
		},
	})
}

// nestedSortLaw: the ordering laws on Go's own output, without the model: same-kind and/or groups of distinct variables
// nested in one another are flattened into ONE node, whose operands must come out as the stable cost-ascending sort of
// their source order (equal costs keep source order, cheaper first) - whatever order the passes run in.
func nestedSortLaw(c *RunCtx) {
	r := c.R
	for rep := 0; rep < c.N(80, 3000); rep++ {
		op := pick(r, []string{"and", "or", "&&", "||", "&", "|"})
		next := 0
		var leaves []string
		var build func(d int) *GT
		build = func(d int) *GT {
			n := 2 + r.Intn(3)
			ch := make([]*GT, n)
			for i := range ch {
				if d > 0 && r.Intn(3) == 0 {
					ch[i] = build(d - 1)
				} else {
					name := fmt.Sprintf("w%02d", next)
					next++
					leaves = append(leaves, name)
					ch[i] = gvar(name)
				}
			}
			return gop(op, ch...)
		}
		t := build(2)
		if len(leaves) < 3 {
			continue
		}
		costs := map[string]int64{}
		for _, n := range leaves {
			if r.Intn(3) != 0 {
				costs[n] = []int64{-100, 1, 1, 7, 7, 50, 1000}[r.Intn(7)]
			}
		}
		rc := &RunCfg{Opts: optSubset(15, r.Bool()), Costs: costs, VarNames: leaves}
		bt := rc.Build()
		e, err, pan := compileSafe(bt.Conf, t.Src())
		c.ExploreEvals++
		if err != nil || pan != nil || e == nil {
			continue
		}
		var got []string
		for _, f := range strings.Fields(strings.NewReplacer("(", " ", ")", " ").Replace(eval.Dump(e))) {
			if strings.HasPrefix(f, "w") {
				got = append(got, f)
			}
		}
		cost := func(n string) int64 {
			if v, ok := costs[n]; ok {
				return v
			}
			return 1 << 20 // every unlisted variable has the same default cost: which one is irrelevant for ties among them...
		}
		// ... but not relative to listed ones: compare only within {listed} and within {unlisted}, and the relative order
		// of two leaves of equal configured cost
		pos := map[string]int{}
		for i, n := range got {
			pos[n] = i
		}
		if len(got) != len(leaves) {
			continue // not a program over these leaves into one node of leaves (capacity or another shape): nothing to say here
		}
		for i := 0; i < len(leaves); i++ {
			for j := i + 1; j < len(leaves); j++ {
				a, bb := leaves[i], leaves[j]
				_, la := costs[a]
				_, lb := costs[bb]
				if la != lb {
					continue
				}
				ca, cb := cost(a), cost(bb)
				bad := (ca == cb && pos[a] > pos[bb]) || (ca < cb && pos[a] > pos[bb]) || (ca > cb && pos[a] < pos[bb])
				if bad {
					c.Direct = append(c.Direct, DirectViolation{What: "operands of a flattened and/or are not in stable cost-ascending order of their source positions (equal cost keeps source order, cheaper first)", Sig: "c16-nested-sort",
						Sample: map[string]interface{}{"source": t.Src(), "costs": costs, "dump": clip(eval.Dump(e), 400), "operand_a": a, "operand_b": bb}})
					return
				}
			}
		}
		c.ExploreHist["nested-sort-law"]++
	}
}

func randStatelessHeavy(r *Rand) []string {
	var s []string
	for _, n := range testOpNames {
		if r.Intn(2) == 0 {
			s = append(s, n)
		}
	}
	if r.Intn(4) == 0 {
		s = append(s, "not_registered")
	}
	return s
}

// a tree rich in constant sub-expressions (constant folding has something to do)
func constRichTree(r *Rand) *GT {
	gc := GenCfg{MaxDepth: 2 + r.Intn(3), MaxWidth: 3, Custom: true, Ifs: r.Bool(), Convert: r.Intn(3) == 0, Lists: r.Intn(3) == 0, UnaryBool: r.Intn(5) == 0}
	g := &Gen{r: r, c: gc}
	// mostly constants: variables replaced by constants with probability 3/4
	var t *GT
	if r.Bool() {
		t = g.Bool(gc.MaxDepth)
	} else {
		t = g.Int(gc.MaxDepth)
	}
	var walk func(x *GT)
	walk = func(x *GT) {
		for i, ch := range x.Ch {
			if ch.Kind == "var" && r.Intn(4) != 0 {
				if strings.HasPrefix(ch.Name, "b") {
					x.Ch[i] = gconst(r.Bool())
				} else if strings.HasPrefix(ch.Name, "i") {
					x.Ch[i] = gconst(int64(r.Intn(4)))
				}
			} else {
				walk(ch)
			}
		}
	}
	walk(t)
	if t.Kind != "op" && t.Kind != "if" {
		t = gop("c_id", t)
	}
	if r.Intn(6) == 0 {
		// a constant of the configuration that is a plain Go int: constants are used as they are (no normalisation), at
		// compile time and at run time alike, so it equals itself and no int64 - whichever optimisations are on
		kg := func() *GT { return &GT{Kind: "const", Val: int(2), Name: "KGOINT"} }
		other := []*GT{gconst(int64(2)), kg(), gconst(int64(3)), gconst("2")}[r.Intn(4)]
		cmp := gop([]string{"=", "==", "eq", "!=", "ne"}[r.Intn(5)], kg(), other)
		if r.Bool() {
			cmp = gop(cmp.Name, other, kg())
		}
		t = gop(pick(r, eqNames), cmp, t)
	}
	if r.Intn(8) == 0 {
		// a failing constant sub-expression under a double negation: the error must surface from Eval
		inner := []*GT{gconst(int64(3)), gop("+", gconst(int64(1)), gconst(int64(2))), gconst("yes"), gvar("i0")}[r.Intn(4)]
		t = gop(pick(r, eqNames), t, gop(pick(r, notNames), gop(pick(r, notNames), inner)))
	}
	return t
}

// boolTyped: the expression certainly yields a boolean whenever it yields a value
func boolTyped(t *GT) bool {
	switch t.Kind {
	case "const":
		_, ok := t.Val.(bool)
		return ok
	case "var":
		return contains(boolVars, t.Name)
	case "if":
		return len(t.Ch) == 3 && boolTyped(t.Ch[1]) && boolTyped(t.Ch[2])
	case "op":
		if contains(andNames, t.Name) || contains(orNames, t.Name) || contains(notNames, t.Name) || contains(cmpNames, t.Name) || contains(eqNames, t.Name) {
			return true
		}
		switch t.Name {
		case "xor", "between", "in", "overlap", "c_yes", "c_no", "ne", "!=":
			return true
		}
	}
	return false
}

// andOrWellTyped: every operand of every and/or is boolean-typed
func andOrWellTyped(t *GT) bool {
	if t.Kind == "op" && (contains(andNames, t.Name) || contains(orNames, t.Name)) {
		for _, ch := range t.Ch {
			if !boolTyped(ch) {
				return false
			}
		}
	}
	for _, ch := range t.Ch {
		if !andOrWellTyped(ch) {
			return false
		}
	}
	return true
}

// probeNonBoolOperand replays the recorded C02 finding against the real code: a non-boolean operand in front of a deciding
// last operand of and/or - unoptimised evaluation returns the last operand's value, FastEvaluation alone (Reordering off)
// makes the same expression a type error.
func probeNonBoolOperand(c *RunCtx) {
	for _, src := range []string{"(or 3 b)", "(and 7 b)", "(|| 3 b)"} {
		vals := map[string]interface{}{"b": src != "(and 7 b)"}
		plain := eval.NewConfig(eval.RegVarAndOp(vals), eval.Optimizations(false))
		fast := eval.NewConfig(eval.RegVarAndOp(vals), eval.Optimizations(false), eval.Optimizations(true, eval.FastEvaluation))
		e1, err1, p1 := compileSafe(plain, src)
		e2, err2, p2 := compileSafe(fast, src)
		if err1 != nil || err2 != nil || p1 != nil || p2 != nil {
			continue
		}
		v1, er1 := e1.Eval(eval.NewCtxFromVars(plain, vals))
		v2, er2 := e2.Eval(eval.NewCtxFromVars(fast, vals))
		if er1 == nil && (er2 != nil || v1 != v2) {
			c.Direct = append(c.Direct, DirectViolation{What: fmt.Sprintf("Reordering off, %s: unoptimised evaluation returns %v but with FastEvaluation it returns %v / %v", src, v1, v2, er2),
				Sig: "c02-nonboolean-operand-before-deciding-last-operand", Sample: map[string]interface{}{"source": src, "binding": fmt.Sprint(vals)}})
			return
		}
	}
}
