package main

import (
	"fmt"
	"sort"
	"strings"
	"unicode"

	eval "github.com/onheap/eval"
)

const textImports = "Require Import Base Opcode Tables Ops Tree Opt Flat Run Directives Lexer Parser Print TestEnv TextCorr."

var textCodeText = map[int]string{31: "unicode classification table of the alphabet differs from the model's", 32: "tokens differ from the model lexer's",
	33: "parse result (tree or error) differs from the model parser's", 34: "Dump text differs from the model's", 35: "IndentByParentheses output differs from the model's"}

// the alphabet sources are drawn from (identifier characters beyond ASCII must be in the model's tables)
var nonASCII = []rune{'é', 'λ', 'Ж', '中', 'ß', 'ª', '٣', '²', '½', 'Ⅳ', '\u00a0', '\u2003', '\u3000', '\u0085', '\u2028', '\u1680', '\u202f', '\u205f'}

func alphabet() []rune {
	var a []rune
	for c := rune(9); c <= 13; c++ {
		a = append(a, c)
	}
	for c := rune(32); c < 127; c++ {
		a = append(a, c)
	}
	return append(a, nonASCII...)
}

func classCase() Case {
	var it []string
	for _, c := range alphabet() {
		it = append(it, fmt.Sprintf("(%d%%N, %s, %s, %s)", c, coqBool(unicode.IsLetter(c)), coqBool(unicode.IsNumber(c)), coqBool(unicode.IsSpace(c))))
	}
	// every code point up to 0x3100 for the space set (the model's is_space is meant to be all of unicode.IsSpace there)
	for c := rune(127); c < 0x3100; c++ {
		if unicode.IsSpace(c) {
			it = append(it, fmt.Sprintf("(%d%%N, %s, %s, true)", c, coqBool(unicode.IsLetter(c)), coqBool(unicode.IsNumber(c))))
		}
	}
	return Case{Term: "TCClass " + coqList(it), Key: "class", Nontrivial: true, Tags: []string{"kind:classification"}, Sample: "unicode.IsLetter/IsNumber/IsSpace over the alphabet"}
}

func tokCoq(t eval.VerifToken) string {
	switch t.Typ {
	case "integer":
		return "KInt " + coqStr(t.Val)
	case "str":
		return "KStr " + coqStr(t.Val)
	case "ident":
		return "KIdent " + coqStr(t.Val)
	case "lParen":
		return "KLParen"
	case "rParen":
		return "KRParen"
	case "lBracket":
		return "KLBracket"
	case "rBracket":
		return "KRBracket"
	case "comma":
		return "KComma"
	case "comment":
		return "KComment " + coqStr(t.Val)
	}
	return "KIdent (ss \"?\")"
}

type textConf struct {
	conf  *eval.Config
	coq   string
	infix bool
}

var textConsts = map[string]interface{}{"K1": int64(3), "KL": []int64{1, 2}, "KS": "k s", "KB": true}

func mkTextConf(r *Rand, infix bool) textConf {
	conf := eval.NewConfig()
	undefined := r.Intn(4) == 0
	var vars []string
	names := append(append(append([]string{}, boolVars...), intVars...), "é1", "x.y", "_u", "中")
	for _, n := range names {
		if r.Intn(5) != 0 {
			k := eval.GetOrRegisterKey(conf, n)
			vars = append(vars, fmt.Sprintf("(%s, %d)", coqStr(n), k))
		}
	}
	// a name that is BOTH a constant of the configuration and a registered variable: the constant wins, in both notations
	if r.Intn(3) != 0 {
		k := eval.GetOrRegisterKey(conf, "K1")
		vars = append(vars, fmt.Sprintf("(%s, %d)", coqStr("K1"), k))
	}
	var cs []string
	ck := make([]string, 0)
	for k := range textConsts {
		ck = append(ck, k)
	}
	sort.Strings(ck)
	for _, k := range ck {
		conf.ConstantMap[k] = textConsts[k]
		cs = append(cs, fmt.Sprintf("(%s, %s)", coqStr(k), coqValue(textConsts[k])))
	}
	for _, n := range testOpNames {
		name := n
		conf.OperatorMap[name] = func(_ *eval.Ctx, p []eval.Value) (eval.Value, error) { return testOpImpl(name, p) }
	}
	eval.Optimizations(false)(conf)
	if undefined {
		conf.CompileOptions[eval.AllowUndefinedVariable] = true
	}
	if infix {
		conf.CompileOptions[eval.InfixNotation] = true
	}
	return textConf{conf: conf, infix: infix,
		coq: fmt.Sprintf("{| p_consts := %s; p_vars := %s; p_ops := %s; p_undefined := %s |}", coqList(cs), coqList(vars), coqStrList(testOpNames), coqBool(undefined))}
}

// a random literal-rich tree for the text layer (strings with spaces, brackets, semicolons, backslashes, line breaks, non-ASCII)
var strLits = []string{"", "a", "a b", "x(y", "p)q", "s;t", `b\n`, "line\nbreak", "tab\there", "é λ", "[z]", "a,b", "  lead", "trail  ", `C:\tmp\`, "中文", "1 2 3", "(", ";", "\\",
	`C:\\temp\\new`, `\\\\`, `a\\tb`, `q\\"`[:3], `\u00e9`, "100% c", "%d %s %v", "50%", "%", "%%", "%!", "{}", "$1", "'q'", "`bt`", "#", "a\rb", "\x00z", "~", "&amp;", "<nil>", "true", "-5", "+", "!x", "Dear user, \nwelcome", "tab\t\nnext", "cr \r\nlf", "nbsp\u00a0\n\n x", " \n", "end \n"}

func textTree(r *Rand, d int) *GT {
	if d <= 0 || r.Intn(4) == 0 {
		switch r.Intn(9) {
		case 0:
			return gconst(strLits[r.Intn(len(strLits))])
		case 1:
			return gconst(randInt(r))
		case 2:
			n := r.Intn(4)
			l := make([]string, n)
			for i := range l {
				l[i] = strLits[r.Intn(len(strLits))]
			}
			return gconst(l)
		case 3:
			n := 1 + r.Intn(3)
			l := make([]int64, n)
			for i := range l {
				l[i] = int64(r.Intn(20)) - 5
			}
			return gconst(l)
		case 4:
			return &GT{Kind: "const", Val: textConsts["K1"], Name: "K1"}
		case 5:
			return gconst(r.Bool())
		default:
			return gvar(append(append([]string{}, boolVars...), "i0", "i1", "é1", "x.y", "_u")[r.Intn(9)])
		}
	}
	switch r.Intn(8) {
	case 0:
		return gif(textTree(r, d-1), textTree(r, d-1), textTree(r, d-1))
	case 1:
		return gop(pick(r, notNames), textTree(r, d-1))
	case 2:
		n := r.Intn(4)
		ch := make([]*GT, n)
		for i := range ch {
			ch[i] = textTree(r, d-1)
		}
		return gop(pick(r, testOpNames), ch...)
	default:
		ops := []string{"+", "-", "*", "/", "%", "=", "==", "!=", "<", ">", "<=", ">=", "&", "&&", "|", "||", "and", "or", "eq", "in", "overlap", "between"}
		op := ops[r.Intn(len(ops))]
		n := 2
		if r.Intn(4) == 0 {
			n = 3
		}
		ch := make([]*GT, n)
		for i := range ch {
			ch[i] = textTree(r, d-1)
		}
		return gop(op, ch...)
	}
}

// relayout re-renders a source with other white space / comments between the same tokens
func relayout(r *Rand, toks []eval.VerifToken, infix bool) string {
	sps := []string{" ", "  ", "\n", "\t", "\r\n", "\u00a0", "\u3000", " \n  ", "\u2003"}
	var sb strings.Builder
	needSep := func(a, b eval.VerifToken) bool {
		glue := func(t eval.VerifToken) bool { return t.Typ == "integer" || t.Typ == "ident" }
		if a.Typ == "comment" {
			return true // a line break must end the comment (added below)
		}
		return glue(a) && (glue(b) || b.Typ == "str")
	}
	txt := func(t eval.VerifToken) string {
		if t.Typ == "str" {
			return `"` + t.Val + `"`
		}
		return t.Val
	}
	for i, t := range toks {
		if t.Typ == "comment" {
			continue
		}
		if i > 0 {
			prev := toks[i-1]
			if needSep(prev, t) || r.Intn(3) == 0 {
				sb.WriteString(sps[r.Intn(len(sps))])
			}
			if r.Intn(10) == 0 {
				// a comment runs to the LINE FEED: a bare carriage return, a form feed, a quote, parentheses are all text
				sb.WriteString([]string{"; a comment (with ; and \" inside\n", "; previous value:\r 2 (+ 1\n", ";x\ry\n", "; tab\tand\fform feed ) (\n", ";\n", "; crlf\r\n",
					"; café λ 中 Ж ß\n", ";; 中中中中 ééé (\n", "; ²½Ⅳ٣ end\n"}[r.Intn(9)])
			}
		}
		sb.WriteString(txt(t))
	}
	return sb.String()
}

func treeEqual(a, b *GT) bool { return a.Coq() == b.Coq() }

func genText(c *RunCtx, prop string) []*Batch {
	r := c.R
	b := &Batch{Prop: prop, Name: "text", Imports: textImports, CaseType: "tcase", ChkFn: "chk_text", OutFn: "diag_text", Codes: true, Shard: 150}
	b.Cases = append(b.Cases, classCase())
	n := c.N(map[string]int{"C13": 1800, "C14": 1100, "C15": 2400}[prop], 30000)
	addLex := func(tc textConf, src string, tag string) ([]eval.VerifToken, error) {
		toks, err := eval.VerifLex(tc.conf, src)
		obs := "None"
		if err == nil {
			it := make([]string, len(toks))
			for i, t := range toks {
				it[i] = tokCoq(t)
			}
			obs = "Some " + coqList(it)
		}
		if prop == "C14" || prop == "C06" {
			b.Cases = append(b.Cases, Case{Term: fmt.Sprintf("TCLex %s %s (%s)", coqBool(tc.infix), coqStr(src), obs), Key: "lex" + fmt.Sprint(tc.infix) + src, Nontrivial: true,
				Tags: []string{"kind:lex", tag}, Sample: map[string]interface{}{"lex": clip(src, 160), "infix": tc.infix}})
		}
		return toks, err
	}
	addParse := func(tc textConf, src string, tag string) (*GT, error) {
		ast, _, err := safeParse(tc.conf, src)
		obs := "None"
		var gt *GT
		if err == nil && ast != nil {
			gt = astToGT(ast)
			obs = "Some (" + gt.Coq() + ")"
		}
		b.Cases = append(b.Cases, Case{Term: fmt.Sprintf("TCParse %s %s %s (%s)", tc.coq, coqBool(tc.infix), coqStr(src), obs), Key: "parse" + fmt.Sprint(tc.infix) + src + tc.coq, Nontrivial: true,
			Tags: []string{"kind:parse", tag, fmt.Sprintf("parse-ok:%v", err == nil)}, Sample: map[string]interface{}{"parse": clip(src, 160), "infix": tc.infix, "ok": err == nil}})
		return gt, err
	}
	for k := 0; k < n; k++ {
		t := textTree(r, 1+r.Intn(3))
		if t.Kind != "op" && t.Kind != "if" {
			t = gop("c_id", t)
		}
		if prop == "C13" && k%6 == 1 {
			// an `if` at the root (and else-if chains) over integer variables: the branches are two-leaf operators
			// (fast operators when that optimisation is on), literals, or further ifs
			t = ifChain(r, 1+r.Intn(3))
		}
		if prop == "C13" && k == 0 {
			rawDumpRoundTrip(c)
		}
		if prop == "C13" && k%30 == 3 {
			// nested same-kind groups that flatten past the operand limit: rejected, or a Dump that compiles again
			t = wideNested(r)
		}
		if prop == "C13" && k%6 == 2 {
			// calls without operands as operands of two-operand operators (an operand-less call is NOT a leaf: with fast
			// evaluation on it must still be called), compared with a value it can silently differ from
			z := func() *GT { return gop([]string{"c_now", "c_sum", "c_yes", "c_no"}[r.Intn(4)]) }
			lf := func() *GT {
				return []*GT{gconst(int64(42)), gconst(int64(0)), gvar("i0"), gconst(true), gconst("c_now"), z()}[r.Intn(6)]
			}
			cmp := func() *GT {
				x, y := z(), lf()
				if r.Bool() {
					x, y = y, x
				}
				return gop([]string{"=", "==", "!=", "eq", "ne", "+", "<", "in"}[r.Intn(8)], x, y)
			}
			t = []*GT{cmp(), gop(pick(r, andNames), cmp(), cmp()), gif(cmp(), cmp(), gconst("else")), gop("c_first", cmp(), gvar("b0"))}[r.Intn(4)]
		}
		tcP := mkTextConf(r, false)
		src := t.Src()
		switch prop {
		case "C13":
			// Dump of the compiled program (all subsets, event modes): model dump; recompile; second dump
			mask := []int{0, 15, r.Intn(16)}[r.Intn(3)]
			conf := eval.CopyConfig(tcP.conf)
			delete(conf.CompileOptions, eval.Optimize)
			for kk, v := range optSubset(mask, true) { // every switch explicit: the base configuration has them all off
				conf.CompileOptions[eval.CompileOption(kk)] = v
			}
			if r.Intn(3) == 0 {
				conf.CompileOptions[eval.ReportEvent] = true
			}
			e, err, pan := compileSafe(conf, src)
			if err != nil || pan != nil {
				continue
			}
			// the program as compiled, before anything is printed: printing must leave it as it is
			progBefore := progCoq(eval.VerifExport(e))
			d := eval.Dump(e)
			_ = eval.DumpTable(e, false)
			if d1 := eval.Dump(e); d1 != d || progCoq(eval.VerifExport(e)) != progBefore {
				c.Direct = append(c.Direct, DirectViolation{What: "Dump changed the compiled program (the program exported before and after printing differs, or a second Dump of the same program prints another text)", Sig: "c13-dump-mutates",
					Sample: map[string]interface{}{"source": src, "first_dump": d, "second_dump": d1}})
				continue
			}
			b.Cases = append(b.Cases, Case{Term: fmt.Sprintf("TCDump %s %s", progBefore, coqStr(d)), Key: "dump" + src + fmt.Sprint(mask), Nontrivial: true,
				Tags: []string{"kind:dump", fmt.Sprintf("subset:%d", mask)}, Sample: map[string]interface{}{"source": clip(src, 160), "dump": clip(d, 160)}})
			if !strings.HasPrefix(d, "(") {
				continue // folded to a bare scalar: outside the property
			}
			plain := eval.CopyConfig(tcP.conf)
			e2, err2, pan2 := compileSafe(plain, d)
			if err2 != nil || pan2 != nil {
				c.Direct = append(c.Direct, DirectViolation{What: fmt.Sprintf("Dump output does not compile: %v %v", err2, pan2), Sig: "c13-recompile", Sample: map[string]interface{}{"source": src, "dump": d}})
				continue
			}
			if d2 := eval.Dump(e2); d2 != d {
				c.Direct = append(c.Direct, DirectViolation{What: "dumping the recompiled program does not reproduce the text", Sig: "c13-second-dump", Sample: map[string]interface{}{"dump": d, "second": d2}})
			}
			for j := 0; j < 3; j++ {
				bd := randBinding(r)
				bd.Vals["é1"], bd.Vals["x.y"], bd.Vals["_u"], bd.Vals["中"] = int64(j), "s", true, int64(7)
				bl := &Built{Keys: map[string]int16{}}
				rc := &RunCfg{Events: conf.CompileOptions[eval.ReportEvent]}
				o1 := runExpr(e, bl, rc, &RecFetcher{Vals: bd.Vals}, false)
				o2 := runExpr(e2, bl, &RunCfg{}, &RecFetcher{Vals: bd.Vals}, false)
				if (o1.Err == nil) != (o2.Err == nil) || (o1.Err == nil && !valEq(o1.Val, o2.Val)) {
					// a reordered and/or may fail on another operand first: only values are promised
					if o1.Err == nil && o2.Err == nil {
						c.Direct = append(c.Direct, DirectViolation{What: fmt.Sprintf("recompiled Dump returns %v, original %v", o2.Val, o1.Val), Sig: "c13-result", Sample: map[string]interface{}{"source": src, "dump": d}})
					} else if o1.Err == nil && o1.Panic == nil && o2.Err != nil {
						// the round trip never loses a result (C13_recompiled_keeps_value): the original returned a value
						c.Direct = append(c.Direct, DirectViolation{What: fmt.Sprintf("the original returns %v but the program recompiled from its Dump fails: %v", o1.Val, o2.Err), Sig: "c13-lost-result", Sample: map[string]interface{}{"source": src, "dump": d}})
					}
				}
			}
		case "C14":
			toks, err := addLex(tcP, src, "layout:canonical")
			if err != nil {
				continue
			}
			base, _ := safeParseGT(tcP.conf, src)
			for j := 0; j < 2; j++ {
				s2 := relayout(r, toks, false)
				toks2, err2 := addLex(tcP, s2, "layout:random")
				if err2 != nil || !sameTokens(toks, toks2) {
					c.Direct = append(c.Direct, DirectViolation{What: "re-laying out the same tokens changes the token sequence", Sig: "c14-relayout", Sample: map[string]interface{}{"source": src, "relayout": s2}})
					continue
				}
				g2, _ := safeParseGT(tcP.conf, s2)
				if base != nil && (g2 == nil || !treeEqual(base, g2)) {
					c.Direct = append(c.Direct, DirectViolation{What: "re-laying out the same tokens changes the parsed tree", Sig: "c14-relayout-tree", Sample: map[string]interface{}{"source": src, "relayout": s2}})
				}
			}
			// a `;;;;` comment after the first token is an ordinary comment: same compiled program, even when malformed
			if sp := strings.Index(src, " "); sp > 0 {
				for _, cm := range []string{";;;; optimize: false", ";;;; reordering:false, constant_folding : false", ";;;; reviewed by nobody", ";;;;"} {
					mid := src[:sp] + " " + cm + "\n" + src[sp:]
					trail := src + " " + cm
					e0, err0, _ := compileSafe(eval.CopyConfig(tcP.conf), src)
					for _, s1 := range []string{mid, trail} {
						e1, err1, pan1 := compileSafe(eval.CopyConfig(tcP.conf), s1)
						if pan1 != nil || (err0 == nil) != (err1 == nil) || (err0 == nil && eval.Dump(e0) != eval.Dump(e1)) {
							c.Direct = append(c.Direct, DirectViolation{What: fmt.Sprintf("a ;;;; comment after the first token changes the compilation (%v / %v)", err0, err1), Sig: "c14-late-directive", Sample: map[string]interface{}{"source": src, "with_comment": s1}})
						}
					}
				}
			}
			// a directive before the first token is honoured whatever white space stands in front of it (blanks, tabs, line
			// breaks, a bare carriage return, Unicode spaces): a constant sub-expression shows whether folding was switched
			if k%4 == 0 {
				body := "(c_id (+ 1 (* 2 3)))"
				ref, errR, _ := compileSafe(eval.CopyConfig(tcP.conf), ";;;; optimize: true\n"+body)
				for _, lead := range []string{" ", "\t", "  \n ", "\r", "\u00a0", "\u3000 ", "\n\n\t"} {
					e1, err1, pan1 := compileSafe(eval.CopyConfig(tcP.conf), lead+";;;; optimize: true\n"+body)
					if pan1 != nil || (errR == nil) != (err1 == nil) || (errR == nil && eval.Dump(ref) != eval.Dump(e1)) {
						c.Direct = append(c.Direct, DirectViolation{What: "white space in front of a leading ;;;; directive changes the compiled program", Sig: "c14-indented-directive",
							Sample: map[string]interface{}{"lead": fmt.Sprintf("%q", lead), "source": body}})
						break
					}
				}
			}
			// the formatter, once and twice, also on a source with comments
			withCmt := ";;;; reordering:false\n" + strings.Replace(src, " ", " ; c1 (x\n ", 1)
			tcInf := textConf{conf: eval.CopyConfig(tcP.conf), coq: tcP.coq, infix: true}
			tcInf.conf.CompileOptions[eval.InfixNotation] = true
			infSrc := infixRender(r, infixTree(r, 1+r.Intn(3)), 0) // infix sources too: bracket lists, calls, `!`
			for si, s0 := range []string{src, withCmt, relayout(r, toks, false), infSrc} {
				lexConf := tcP.conf
				if si == 3 {
					lexConf = tcInf.conf
				}
				f1 := eval.IndentByParentheses(s0)
				b.Cases = append(b.Cases, Case{Term: fmt.Sprintf("TCIndent %s %s", coqStr(s0), coqStr(f1)), Key: "indent" + s0, Nontrivial: true, Tags: []string{"kind:indent"},
					Sample: map[string]interface{}{"indent_input": clip(s0, 160)}})
				t0, e0 := eval.VerifLex(lexConf, s0)
				t1, e1 := eval.VerifLex(lexConf, f1)
				f2 := eval.IndentByParentheses(f1)
				t2, e2 := eval.VerifLex(lexConf, f2)
				if e0 != nil {
					continue
				}
				if e1 != nil || e2 != nil || !sameTokensWithComments(t0, t1) || !sameTokensWithComments(t1, t2) {
					c.Direct = append(c.Direct, DirectViolation{What: "IndentByParentheses changes the tokens or comments", Sig: "c14-indent", Sample: map[string]interface{}{"input": s0, "formatted": f1}})
				}
			}
		case "C15":
			if k == 0 {
				infixAliasCheck(c) // conventionally written infix expressions EVALUATE like their prefix forms (repeated leaves, every spelling)
			}
			tcI := textConf{conf: eval.CopyConfig(tcP.conf), coq: tcP.coq, infix: true}
			tcI.conf.CompileOptions[eval.InfixNotation] = true
			ti := infixTree(r, 1+r.Intn(3))
			pre := ti.Src()
			inf := infixRender(r, ti, 0)
			gP, errP := addParse(tcP, pre, "notation:prefix")
			gI, errI := addParse(tcI, inf, "notation:infix")
			if errP == nil && (errI != nil || gI == nil || !treeEqual(gP, gI)) {
				c.Direct = append(c.Direct, DirectViolation{What: fmt.Sprintf("infix rendering does not parse to the tree of the prefix form (%v)", errI), Sig: "c15-tree", Sample: map[string]interface{}{"prefix": pre, "infix": inf}})
			}
		case "C06":
			// agreement of the model front end with Go on valid, mutated and random sources, both notations
			infix := r.Intn(3) == 0
			tc := tcP
			s0 := src
			if infix {
				tc = mkTextConf(r, true)
				s0 = infixRender(r, infixTree(r, 1+r.Intn(3)), 0)
			}
			switch r.Intn(5) {
			case 0:
			case 1:
				rs := []rune(s0)
				s0 = string(rs[:r.Intn(len(rs)+1)])
			default:
				s0 = mutateSource(r, s0)
			}
			if !inAlphabet(s0) {
				continue
			}
			addLex(tc, s0, "source:mutated")
			addParse(tc, s0, "source:mutated")
		}
	}
	return []*Batch{b}
}

func inAlphabet(s string) bool {
	ok := map[rune]bool{}
	for _, c := range alphabet() {
		ok[c] = true
	}
	for _, c := range s {
		if !ok[c] {
			return false
		}
	}
	return true
}

func safeParse(conf *eval.Config, src string) (ast *eval.VerifAst, cc *eval.Config, err error) {
	guarded(map[string]interface{}{"call": "parse", "source": src}, func() {
		defer func() {
			if p := recover(); p != nil {
				err = fmt.Errorf("panic: %v", p)
			}
		}()
		ast, cc, err = eval.VerifParse(conf, src, false)
	})
	return
}

func safeParseGT(conf *eval.Config, src string) (*GT, error) {
	a, _, err := safeParse(conf, src)
	if err != nil || a == nil {
		return nil, err
	}
	return astToGT(a), nil
}

func sameTokens(a, b []eval.VerifToken) bool {
	var x, y []eval.VerifToken
	for _, t := range a {
		if t.Typ != "comment" {
			x = append(x, t)
		}
	}
	for _, t := range b {
		if t.Typ != "comment" {
			y = append(y, t)
		}
	}
	if len(x) != len(y) {
		return false
	}
	for i := range x {
		if x[i] != y[i] {
			return false
		}
	}
	return true
}

// tokens identical, comments identical up to trailing white space of the comment text
func sameTokensWithComments(a, b []eval.VerifToken) bool {
	if len(a) != len(b) {
		return false
	}
	for i := range a {
		if a[i].Typ != b[i].Typ {
			return false
		}
		if a[i].Typ == "comment" {
			if strings.TrimRightFunc(a[i].Val, unicode.IsSpace) != strings.TrimRightFunc(b[i].Val, unicode.IsSpace) {
				return false
			}
		} else if a[i].Val != b[i].Val {
			return false
		}
	}
	return true
}

// ---------- infix rendering ----------

var infixBin = map[string]int{"*": 8, "/": 8, "%": 8, "+": 7, "-": 7, "=": 5, "==": 5, "!=": 5, "<": 5, ">": 5, "<=": 5, ">=": 5, "&": 4, "&&": 4, "|": 3, "||": 3}

func infixTree(r *Rand, d int) *GT {
	if d <= 0 || r.Intn(4) == 0 {
		switch r.Intn(7) {
		case 0:
			return gconst(int64(r.Intn(30)) - 8) // negative literals too: `a - -3`, `-3 * a`
		case 1:
			return gconst(strLits[r.Intn(len(strLits))])
		case 2:
			if r.Bool() {
				// string lists in brackets: the first literal is glued to `[` (strings with runs of spaces, parentheses, `;`)
				ls := make([]string, 1+r.Intn(3))
				for i := range ls {
					ls[i] = strLits[r.Intn(len(strLits))]
				}
				return gconst(ls)
			}
			l := make([]int64, 1+r.Intn(3)) // bracket lists with negative elements at any position: [1 -2 3]
			for i := range l {
				l[i] = int64(r.Intn(9)) - 4
			}
			return gconst(l)
		case 3:
			return gconst(r.Bool())
		case 4:
			return &GT{Kind: "const", Val: textConsts["K1"], Name: "K1"}
		default:
			return gvar(append(append([]string{}, boolVars...), "i0", "i1", "é1", "x.y")[r.Intn(8)])
		}
	}
	switch r.Intn(9) {
	case 0:
		return gif(infixTree(r, d-1), infixTree(r, d-1), infixTree(r, d-1))
	case 1:
		return gop("!", infixTree(r, d-1))
	case 2:
		n := r.Intn(4)
		ch := make([]*GT, n)
		for i := range ch {
			ch[i] = infixTree(r, d-1)
		}
		return gop(pick(r, append([]string{"and", "or", "between", "in"}, testOpNames...)), ch...)
	default:
		ops := []string{"*", "/", "%", "+", "-", "=", "==", "!=", "<", ">", "<=", ">=", "&", "&&", "|", "||"}
		return gop(ops[r.Intn(len(ops))], infixTree(r, d-1), infixTree(r, d-1))
	}
}

// infixRender renders with minimal parentheses by precedence and left associativity, plus random redundant ones;
// ctx is the binding strength required by the context (0 = none).
func infixRender(r *Rand, t *GT, ctx int) string {
	sp := func() string { return []string{"", " ", "  "}[r.Intn(3)] }
	wrap := func(s string, need bool) string {
		if need || r.Intn(8) == 0 {
			return "(" + sp() + s + sp() + ")"
		}
		return s
	}
	switch t.Kind {
	case "const":
		if t.Name != "" { // a constant of the configuration, written by its name
			return wrap(t.Name, false)
		}
		switch x := t.Val.(type) {
		case []int64:
			p := make([]string, len(x))
			for i, z := range x {
				p[i] = fmt.Sprint(z)
			}
			return "[" + strings.Join(p, " ") + "]"
		case []string:
			p := make([]string, len(x))
			for i, z := range x {
				p[i] = `"` + z + `"`
			}
			return "[" + strings.Join(p, " ") + "]"
		}
		return wrap(srcValue(t.Val), false)
	case "var":
		return wrap(t.Name, false)
	case "if":
		return "if" + sp() + "(" + infixRender(r, t.Ch[0], 0) + sp() + "," + sp() + infixRender(r, t.Ch[1], 0) + "," + infixRender(r, t.Ch[2], 0) + ")"
	}
	if p, ok := infixBin[t.Name]; ok && len(t.Ch) == 2 {
		// left operand may have the same precedence (left associativity), the right one must bind tighter
		s := infixRender(r, t.Ch[0], p) + " " + t.Name + " " + infixRender(r, t.Ch[1], p+1)
		return wrap(s, p < ctx)
	}
	if t.Name == "!" && len(t.Ch) == 1 {
		// `!` has precedence 6: its operand must bind tighter than 6; `!x` under a tighter binary operator is parenthesised
		// `!x` lexes as two tokens only when x is an identifier; any other operand needs a separator
		s := "! " + infixRender(r, t.Ch[0], 7)
		if t.Ch[0].Kind == "var" && r.Bool() {
			s = "!" + t.Ch[0].Name
		}
		return wrap(s, 6 < ctx)
	}
	p := make([]string, len(t.Ch))
	for i, ch := range t.Ch {
		p[i] = infixRender(r, ch, 0)
	}
	return t.Name + sp() + "(" + strings.Join(p, sp()+","+sp()) + ")"
}

func init() {
	for _, id := range []string{"C13", "C14", "C15"} {
		prop := id
		rule := map[string]string{
			"C13": "random literal-rich trees (strings with spaces, parentheses, brackets, semicolons, backslashes, line breaks, non-ASCII; int and string lists; constants; dotted and non-ASCII identifiers) compiled under option subsets and event modes; Go's Dump is compared with the model's `dump` of the exported program, recompiled unoptimised under the same names, evaluated on 3 bindings against the original, and dumped again (must reproduce the text); operand-less calls under two-operand comparisons, if-chains, nested groups flattening past the operand limit; hand-written sources with other quote characters and escapes (whatever the lexer accepts must survive the round trip); non-trivial = Dump starts with a parenthesis; distinct = distinct (source, subset)",
			"C14": "random trees rendered to source, re-laid out twice with random Unicode white space, line breaks and `;` comments between the same tokens (a separator only where two tokens would fuse), formatted once and twice by IndentByParentheses (also with directive and ordinary comments, comments with multi-byte letters, multi-line literals with white space before the line break, infix renderings with string lists; white space of every kind in front of a leading directive); Go's token sequences and parsed trees must coincide; Go's lexer and formatter are compared with the model's `lex` and `indent_by_parens` on every string; non-trivial = every source; distinct = distinct strings",
			"C15": "random trees over binary operators of every precedence level, unary !, named n-ary calls, if and bracket lists, rendered to infix with minimal parentheses (by precedence and left associativity) plus random redundant parentheses and spacing, a name that is both a constant of the configuration and a registered variable; infix expressions with repeated leaves EVALUATED against their prefix forms; Go's infix parse must equal Go's prefix parse of the prefix form; both are compared with the model's parsers; non-trivial = every tree; distinct = distinct renderings",
		}[prop]
		register(&PropDef{ID: prop, Rule: rule,
			Assumptions: []string{"identifier characters are drawn from an alphabet whose unicode.IsLetter/IsNumber/IsSpace classification is compared with the model's tables in every run"},
			Behav:       []int{}, Fidelity: []int{31, 32, 33, 34, 35}, CodeText: textCodeText,
			Gen:         func(c *RunCtx) []*Batch { return genText(c, prop) }})
	}
}

func ifChain(r *Rand, d int) *GT {
	iv := func() *GT {
		if r.Intn(3) == 0 {
			return gconst(int64(r.Intn(9)) - 2)
		}
		return gvar(pick(r, []string{"i0", "i1"}))
	}
	arith := func() *GT { return gop(pick(r, []string{"+", "-", "*"}), iv(), iv()) }
	branch := func() *GT {
		switch {
		case d > 0 && r.Intn(2) == 0:
			return ifChain(r, d-1)
		case r.Intn(4) == 0:
			return iv()
		default:
			return arith()
		}
	}
	cond := gop(pick(r, []string{">", "<", "=", "!=", ">=", "<="}), iv(), iv())
	return gif(cond, branch(), branch())
}

// rawDumpRoundTrip: source texts written by hand with lexemes outside the harness's own renderings (other quote
// characters, quotes inside words, escapes): whatever of them the lexer ACCEPTS must survive the Dump round trip like
// everything else - the dumped text compiles, gives the same result on every binding tried, and dumps to itself.
func rawDumpRoundTrip(c *RunCtx) {
	srcs := []string{
		`(eq s0 'a" "b')`, `(in s0 ('a" "b'))`, `(in s0 ('a" "b' "c"))`, `(eq s0 'say "hi" twice')`, `(if (eq s0 'a" "b') 1 2)`,
		"(eq s0 `a\" \"b`)", `(eq s0 'plain')`, `(in s0 ('x' 'y'))`, `(eq s0 "a\"b")`, `(eq s0 "tab\tq")`, `(in s0 ("a""b"))`, `(eq s0 “curly”)`,
	}
	binds := []map[string]interface{}{{"s0": "a"}, {"s0": `a" "b`}, {"s0": "b"}, {"s0": "plain"}, {"s0": "x"}}
	for _, src := range srcs {
		for _, opt := range []bool{false, true} {
			conf := eval.NewConfig(eval.RegVarAndOp(map[string]interface{}{"s0": ""}), eval.Optimizations(opt))
			e, err, pan := compileSafe(conf, src)
			c.ExploreEvals++
			if pan != nil {
				c.Direct = append(c.Direct, DirectViolation{What: fmt.Sprintf("Compile panicked: %v", pan), Sig: "c13-raw-panic", Sample: src})
				continue
			}
			if err != nil || e == nil {
				continue // the lexer rejects this spelling: nothing to round-trip
			}
			d := eval.Dump(e)
			plain := eval.NewConfig(eval.RegVarAndOp(map[string]interface{}{"s0": ""}), eval.Optimizations(false))
			e2, err2, pan2 := compileSafe(plain, d)
			if err2 != nil || pan2 != nil || e2 == nil {
				c.Direct = append(c.Direct, DirectViolation{What: fmt.Sprintf("the Dump of a program that compiled does not compile: %v %v", err2, pan2), Sig: "c13-raw-recompile",
					Sample: map[string]interface{}{"source": src, "dump": d}})
				continue
			}
			if d2 := eval.Dump(e2); d2 != d {
				c.Direct = append(c.Direct, DirectViolation{What: "dumping the recompiled program does not reproduce the text", Sig: "c13-raw-second-dump", Sample: map[string]interface{}{"source": src, "dump": d, "second": d2}})
			}
			for _, bd := range binds {
				v1, e1 := e.Eval(eval.NewCtxFromVars(conf, bd))
				v2, er2 := e2.Eval(eval.NewCtxFromVars(plain, bd))
				if e1 == nil && er2 == nil && !valEq(v1, v2) {
					c.Direct = append(c.Direct, DirectViolation{What: fmt.Sprintf("the recompiled Dump returns %v where the original returns %v", v2, v1), Sig: "c13-raw-result",
						Sample: map[string]interface{}{"source": src, "dump": d, "binding": fmt.Sprint(bd)}})
					break
				}
			}
		}
	}
	c.ExploreHist["raw-sources"] += len(srcs)
}
