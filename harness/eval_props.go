package main

import (
	"fmt"
	"sort"
	"strings"

	eval "github.com/onheap/eval"
)

const evalImports = "Require Import Base Opcode Tables Ops Tree Opt Flat Run TestEnv EvalCorr."

var evalCodeText = map[int]string{
	1:  "model optimiser result differs from the implementation's optimised tree",
	2:  "capacity decision (accept/reject and which limit) differs",
	3:  "compiled layout differs from the model's compile",
	4:  "Eval loop model run on the implementation's own program differs from Eval",
	5:  "Eval result/effects differ from the reference semantics of the optimised tree",
	6:  "TryEval loop model run on the implementation's own program differs from TryEval",
	7:  "TryEval result/effects differ from its tree-level meaning",
	8:  "the implementation's program fails the static stack-bound validation",
	9:  "registered operators invoked during Compile differ from the model's constant-folding log",
	14: "event mode: the events emitted (OP_EXEC payloads, LOOP node and stack snapshot; positions erased) differ from those of the proven evaluation loop on the model's event-mode program of the same optimised tree",
	15: "the implementation's optimised tree differs from the model's AND Eval returns something else than the model-optimised tree means",
	17: "the implementation's optimised tree differs from the model's and Eval returns ANOTHER VALUE than the model-optimised tree (whose value is the source's, by C02's theorem)",
	16: "the implementation's optimised tree differs from the model's and TryEval gives ANOTHER ANSWER (value or DNE) than the model-optimised tree means",
	10: "event-mode layout: the structural compiler the C12 theorem is about differs from the transliterated event pass",
	50: "outside the property's domain (non-boolean operand of and/or): not compared",
}

type EvalSpec struct {
	Tree   *GT
	RC     *RunCfg
	Bind   *Binding
	Avail  map[string]bool // nil: all bound variables available
	DoEval bool
	DoTry  bool
	Lazy   bool
	Tags   []string
}

var optNames = []string{"constant_folding", "reduce_nesting", "fast_evaluation", "reordering"}

// the 16 subsets: bit i set = optimisation i enabled; encoded either by explicit false entries or explicit entries for all
func optSubset(mask int, explicitTrue bool) map[string]bool {
	m := map[string]bool{}
	for i, n := range optNames {
		on := mask&(1<<i) != 0
		if !on {
			m[n] = false
		} else if explicitTrue {
			m[n] = true
		}
	}
	return m
}

func collectVars(t *GT, set map[string]bool) {
	if t.Kind == "var" {
		set[t.Name] = true
	}
	for _, c := range t.Ch {
		collectVars(c, set)
	}
}

func envCoq(b *Binding, names []string) string {
	var it []string
	for _, n := range names {
		v, ok := b.Vals[n]
		if !ok {
			continue
		}
		if ue, isErr := v.(*UserErr); isErr {
			it = append(it, fmt.Sprintf("(%s, Err (EUser %d))", coqStr(n), ue.ID))
		} else {
			it = append(it, fmt.Sprintf("(%s, Ok (%s))", coqStr(n), coqValue(v)))
		}
	}
	return coqList(it)
}

type evalOutcome struct {
	Case     Case
	Skipped  string
	CompileP interface{}
	Direct   *DirectViolation
}

func mkEvalCase(sp *EvalSpec) evalOutcome {
	rc := sp.RC
	vs := map[string]bool{}
	collectVars(sp.Tree, vs)
	names := make([]string, 0, len(vs))
	for n := range vs {
		names = append(names, n)
	}
	sort.Strings(names)
	if rc.VarNames == nil {
		rc.VarNames = names
	}
	b := rc.Build()
	b.setKeys(sp.Tree, rc.Undefined)
	src := sp.Tree.Src()
	if hashStr(src)%3 == 0 {
		// the configuration object has compiled something else before: a source whose directives switch the optimisations
		// the other way round. Directives hold for their own compilation only, so nothing below may change
		flip := "true"
		for _, v := range rc.Opts {
			if v {
				flip = "false"
			}
		}
		if len(rc.Opts) == 0 {
			flip = "false"
		}
		compileSafe(b.Conf, ";;;; optimize: "+flip+"\n(+ 1 (* 2 3))")
		b.CompileLog.Log = nil
	}
	e, err, pan := compileSafe(b.Conf, src)
	if pan != nil {
		return evalOutcome{CompileP: pan, Skipped: fmt.Sprintf("Compile panicked: %v on %s", pan, src)}
	}
	code := cerrCode(err)
	if code == 9 {
		return evalOutcome{Skipped: "harness rendered a source the parser rejects: " + err.Error() + " :: " + src}
	}
	var directV *DirectViolation
	optTerm, progTerm, evalTerm, tryTerm := "None", "None", "None", "None"
	var ccalls []string
	for _, o := range b.CompileLog.Log {
		ccalls = append(ccalls, fmt.Sprintf("(%s, %s)", coqStr(o.Name), coqValues(o.Args)))
	}
	ccTerm := "Some " + coqList(ccalls)
	nCompileCalls := len(ccalls)
	sample := map[string]interface{}{"source": clip(src, 300), "config": rc.Describe()}
	tags := append([]string{}, sp.Tags...)
	nontrivial := false
	if code == 0 {
		ast, _, perr := eval.VerifParse(b.Conf, src, true)
		if perr == nil {
			optTerm = "Some (" + astToGT(ast).Coq() + ")"
		}
		b.CompileLog.Log = nil
		vp := eval.VerifExport(e)
		progTerm = "Some " + progCoq(vp)
		avail := sp.Avail
		if sp.DoEval {
			f := &RecFetcher{Vals: sp.Bind.Vals}
			o := runExpr(e, b, rc, f, false)
			evalTerm = "Some " + o.Coq()
			sample["eval"] = o.String()
			sample["effects"] = len(o.Plain)
			switch {
			case o.Panic != nil:
				tags = append(tags, "eval:panic")
			case o.Err != nil:
				tags = append(tags, "eval:error")
			default:
				tags = append(tags, "eval:value")
			}
			nontrivial = nontrivial || len(o.Plain) > 0 || len(vp.Nodes) > 3
			// the same evaluation through the library's OWN context (NewCtxFromVars: key-indexed or name-indexed
			// fetcher over the configuration's key map) must give the same answer as the harness's name-indexed fetcher
			if !rc.Events && !rc.Debug && o.Panic == nil {
				plain, ok := map[string]interface{}{}, true
				for _, n := range rc.VarNames {
					v, bound := sp.Bind.Vals[n]
					if _, isErr := v.(*UserErr); isErr || !bound {
						ok = false
					}
					plain[n] = v
				}
				if rr := NewRand(hashStr(src) ^ uint64(len(plain))); ok && rr.Bool() {
					// the same values as other Go types the library documents as accepted (int, int32, int8, uint8, []int,
					// []int32): bindings are normalised when the context is built, so nothing may change
					for _, n := range rc.VarNames {
						plain[n] = respellGoType(rr, plain[n])
					}
				}
				if ok {
					var lv eval.Value
					var lerr error
					var lpan interface{}
					guarded(map[string]interface{}{"call": "Eval (library context)", "source": src}, func() {
						defer func() { lpan = recover() }()
						lv, lerr = e.Eval(eval.NewCtxFromVars(b.Conf, plain))
					})
					if lpan != nil || (lerr == nil) != (o.Err == nil) || (lerr == nil && !valEq(lv, o.Val)) || (lerr != nil && o.Err != nil && coqErr(lerr) != coqErr(o.Err)) {
						directV = &DirectViolation{What: "Eval with the library's own context (NewCtxFromVars over the configuration's key map) differs from Eval with a fetcher that reads the same values by name",
							Sig: "library-ctx-eval", Sample: map[string]interface{}{"source": clip(src, 300), "config": rc.Describe(), "key_map": fmt.Sprint(b.Conf.VariableKeyMap), "values": fmt.Sprint(plain),
								"library_context": fmt.Sprintf("%v / %v / %v", lv, lerr, lpan), "by_name": fmt.Sprintf("%v / %v", o.Val, o.Err)}}
					}
				}
			}
		}
		if sp.DoTry {
			f := &RecFetcher{Vals: sp.Bind.Vals, Avail: avail, Lazy: sp.Lazy}
			if avail == nil {
				f.Avail = map[string]bool{}
				for n := range sp.Bind.Vals {
					f.Avail[n] = true
				}
			}
			o := runExpr(e, b, rc, f, true)
			tryTerm = "Some " + o.Coq()
			sample["tryeval"] = o.String()
			if o.Err == nil && o.Panic == nil && o.Val == eval.DNE {
				tags = append(tags, "try:DNE")
			} else if o.Err != nil {
				tags = append(tags, "try:error")
			} else {
				tags = append(tags, "try:definite")
			}
			nontrivial = true
		}
		tags = append(tags, fmt.Sprintf("nodes:%s", bucket(len(vp.Nodes))), fmt.Sprintf("stack:%s", bucket(int(vp.MaxStack))))
	} else {
		tags = append(tags, fmt.Sprintf("compile:rejected-%d", code))
		nontrivial = true
	}
	var availNames []string
	if sp.Avail != nil {
		for n := range sp.Avail {
			if sp.Avail[n] {
				availNames = append(availNames, n)
			}
		}
		sort.Strings(availNames)
	} else {
		for n := range sp.Bind.Vals {
			availNames = append(availNames, n)
		}
		sort.Strings(availNames)
	}
	term := fmt.Sprintf("{| ec_cfg := %s; ec_tree := %s; ec_env := %s; ec_avail := %s; ec_cerr := %d%%N; ec_opt := %s; ec_prog := %s; ec_eval := %s; ec_try := %s; ec_ccalls := %s |}",
		rc.Coq(), sp.Tree.Coq(), envCoq(sp.Bind, names), coqStrList(availNames), code, optTerm, progTerm, evalTerm, tryTerm, ccTerm)
	sample["compile_time_calls"] = nCompileCalls
	if nCompileCalls > 0 {
		tags = append(tags, "compile-time-call")
	}
	sample["binding"] = bindingString(sp.Bind, names)
	if sp.Avail != nil {
		sample["available"] = availNames
	}
	key := src + "|" + rc.Describe() + "|" + fmt.Sprint(sample["binding"]) + fmt.Sprint(availNames)
	return evalOutcome{Case: Case{Term: term, Sample: sample, Key: key, Nontrivial: nontrivial, Tags: tags}, Direct: directV}
}

func bucket(n int) string {
	switch {
	case n <= 3:
		return "1-3"
	case n <= 8:
		return "4-8"
	case n <= 16:
		return "9-16"
	case n <= 40:
		return "17-40"
	case n <= 200:
		return "41-200"
	default:
		return ">200"
	}
}

func clip(s string, n int) string {
	if len(s) > n {
		return s[:n] + "…"
	}
	return s
}

func bindingString(b *Binding, names []string) string {
	s := ""
	for _, n := range names {
		v := b.Vals[n]
		if ue, ok := v.(*UserErr); ok {
			s += fmt.Sprintf("%s=error(%d) ", n, ue.ID)
		} else {
			s += fmt.Sprintf("%s=%v ", n, v)
		}
	}
	return s
}

func evalBatch(prop, name string) *Batch {
	return &Batch{Prop: prop, Name: name, Imports: evalImports, CaseType: "ecase", ChkFn: "chk_eval", OutFn: "diag_eval", Codes: true}
}

func addEval(c *RunCtx, b *Batch, sp *EvalSpec) {
	o := mkEvalCase(sp)
	if o.CompileP != nil {
		c.Direct = append(c.Direct, DirectViolation{What: "Compile panicked", Sig: "compile-panic", Sample: o.Skipped})
		return
	}
	if o.Skipped != "" {
		c.Notes = append(c.Notes, o.Skipped)
		return
	}
	if o.Direct != nil && len(c.Direct) < 50 {
		c.Direct = append(c.Direct, *o.Direct)
	}
	b.Cases = append(b.Cases, o.Case)
}

func init() {
	register(&PropDef{
		ID:   "C01",
		Rule: "random typed expression trees (all operator families and aliases, if, literals, lists, registered operators incl. zero-operand and failing ones, failing variables, wrong-typed operands, and/or with 0..127 operands) rendered to source, compiled with all optimisations disabled, evaluated under random bindings with a recording fetcher; Go's result/error and its ordered fetch/operator-call effects are compared with the reference semantics `sem` of the model (and the model's compile/run with Go's exported program); every Eval case is repeated through the library's own context (NewCtxFromVars) with the same values bound as int, int32, int8, uint8, uint64, []int, []int32; string variables against string literals and a string constant of the configuration; list-valued variables under in/overlap and as results; in a third of all Eval cases (of every property) the configuration object has compiled a source with opposite `;;;;` directives before; non-trivial = at least one effect or more than 3 nodes; distinct = distinct (source, config, binding)",
		Assumptions: []string{"fetcher and registered operators are deterministic functions of their arguments (the harness's recording fetcher and test operators are)",
			"errors are compared by class and identity of the user error, not by message text"},
		Behav: []int{5, 2, 15}, Fidelity: []int{3, 4, 8, 10}, Ignore: []int{50, 1, 6, 7}, CodeText: evalCodeText,
		Gen: genC01,
	})
}

func genC01(c *RunCtx) []*Batch {
	r := c.R
	b := evalBatch("C01", "eval_unoptimised")
	n := c.N(1500, 60000)
	for k := 0; k < n; k++ {
		g := &Gen{r: r, c: GenCfg{MaxDepth: 2 + r.Intn(4), MaxWidth: 4, WrongType: []int{0, 0, 3, 8}[r.Intn(4)], FailVars: r.Intn(3) == 0,
			UnaryBool: r.Intn(4) == 0, Custom: r.Intn(3) != 0, Ifs: r.Intn(4) != 0, Lists: r.Intn(3) == 0, Convert: r.Intn(8) == 0,
			Wide: []int{0, 0, 0, 2}[r.Intn(4)], NonBoolInBoolOp: []int{0, 0, 0, 0, 5}[r.Intn(5)]}}
		var t *GT
		if r.Intn(3) == 0 {
			t = g.Int(g.c.MaxDepth)
		} else {
			t = g.Bool(g.c.MaxDepth)
		}
		if t.Kind != "op" && t.Kind != "if" {
			t = gop("c_id", t)
		}
		rc := &RunCfg{Opts: optSubset(0, false), Undefined: r.Intn(5) == 0, Events: false, KeyGap: r.Intn(3) == 0, Shadow: r.Intn(8) == 0}
		nb := 1 + r.Intn(2)
		for j := 0; j < nb; j++ {
			bd := randBinding(r)
			if r.Intn(6) == 0 { // a variable bound to nil is bound: Eval computes with nil
				bd.Vals[pick(r, intVars)] = nil
				bd.Vals[pick(r, strVars)] = nil
			}
			addEval(c, b, &EvalSpec{Tree: t, RC: rc, Bind: bd, DoEval: true, DoTry: false})
		}
	}
	for _, t := range boundaryTrees() {
		addEval(c, b, &EvalSpec{Tree: t, RC: &RunCfg{Opts: optSubset(0, false)}, Bind: randBinding(r), DoEval: true, Tags: []string{"boundary-depth"}})
	}
	// list-valued variables: membership, intersection and the list itself as a result (the library-context comparison
	// of every case binds them as []int64, []int or []int32)
	for k := 0; k < c.N(40, 1500); k++ {
		probe := []*GT{gconst(int64(0)), gconst(int64(1)), gvar("i0"), gconst(int64(4))}[r.Intn(4)]
		t := []*GT{gop("in", probe, gvar("li0")), gop("overlap", gvar("li0"), gconst([]int64{0, 7, 9})), gop("overlap", gconst([]int64{0}), gvar("li0")),
			gif(gop("in", probe, gvar("li0")), gvar("li0"), gconst([]int64{1})), gop("c_first", gvar("li0"), probe)}[r.Intn(5)]
		addEval(c, b, &EvalSpec{Tree: t, RC: &RunCfg{Opts: optSubset(0, false)}, Bind: randBinding(r), DoEval: true, Tags: []string{"list-variables"}})
	}
	return []*Batch{b}
}

// ---------- shared generators ----------

func randTree(r *Rand, gc GenCfg) *GT {
	g := &Gen{r: r, c: gc}
	var t *GT
	if r.Intn(8) == 0 {
		t = logicNest(r, 2+r.Intn(2))
		if t.Kind != "op" {
			t = gop("c_id", t)
		}
		return t
	}
	if r.Intn(3) == 0 {
		t = g.Int(gc.MaxDepth)
	} else {
		t = g.Bool(gc.MaxDepth)
	}
	if t.Kind != "op" && t.Kind != "if" {
		t = gop("c_id", t)
	}
	return t
}

func randGenCfg(r *Rand) GenCfg {
	return GenCfg{MaxDepth: 2 + r.Intn(4), MaxWidth: 4, WrongType: []int{0, 0, 3, 8}[r.Intn(4)], FailVars: r.Intn(3) == 0,
		UnaryBool: r.Intn(4) == 0, Custom: r.Intn(3) != 0, Ifs: r.Intn(4) != 0, Lists: r.Intn(3) == 0, Convert: r.Intn(8) == 0,
		Wide: []int{0, 0, 0, 2}[r.Intn(4)], OnlyBoolOps: r.Intn(4) == 0}
}

// boundary programs: operand-stack depth around the 8/16 allocation classes with every kind of node at the deepest slot
func boundaryTrees() []*GT {
	var res []*GT
	deep := []func() *GT{
		func() *GT { return gconst(int64(1)) },
		func() *GT { return gvar("i0") },
		func() *GT { return gop("c_now") },
		func() *GT { return gop("c_sum") },
		func() *GT { return gop("+", gvar("i1"), gconst(int64(2))) },
		func() *GT { return gif(gvar("b0"), gconst(int64(3)), gvar("i2")) },
		func() *GT { return gop("c_sum", gop("c_now"), gop("c_now")) },
	}
	for _, d := range []int{6, 7, 8, 9, 15, 16, 17, 18} {
		for _, mk := range deep {
			ch := make([]*GT, 0, d)
			for i := 0; i < d-1; i++ {
				ch = append(ch, gconst(int64(i)))
			}
			ch = append(ch, mk())
			res = append(res, gop("+", ch...))
			// right-nested: depth grows by one per level
			t := mk()
			for i := 0; i < d-1; i++ {
				t = gop("+", gconst(int64(i)), t)
			}
			res = append(res, t)
			// under and/or with a non-deciding prefix
			bc := make([]*GT, 0, d)
			for i := 0; i < d-1; i++ {
				bc = append(bc, gconst(true))
			}
			bc = append(bc, gop("=", gconst(int64(1)), mk()))
			res = append(res, gop("and", bc...))
		}
	}
	return res
}

func allSubsets() []int {
	r := make([]int, 16)
	for i := range r {
		r[i] = i
	}
	return r
}

func randAvail(r *Rand, b *Binding) map[string]bool {
	av := map[string]bool{}
	p := []int{20, 50, 80, 100}[r.Intn(4)]
	for n := range b.Vals {
		av[n] = r.Chance(p)
	}
	return av
}

func randCosts(r *Rand) map[string]int64 {
	if r.Intn(3) != 0 {
		return nil
	}
	m := map[string]int64{}
	names := []string{"b0", "b1", "i0", "i1", "variable", "operator", "and", "=", "c_now", "c_sum", "+", "or"}
	for i := 0; i < 1+r.Intn(4); i++ {
		m[names[r.Intn(len(names))]] = []int64{-5, 0, 1, 3, 7, 50, 1000, 1 << 40}[r.Intn(8)]
	}
	return m
}

func randStateless(r *Rand) []string {
	if r.Intn(3) != 0 {
		return nil
	}
	var s []string
	for _, n := range testOpNames {
		if r.Intn(3) == 0 {
			s = append(s, n)
		}
	}
	if r.Intn(4) == 0 {
		s = append(s, "not_registered")
	}
	return s
}

func init() {
	register(&PropDef{
		ID:   "C03",
		Rule: "random typed trees x all 16 optimisation subsets x cost maps x stateless declarations x bindings; Go's ordered VariableFetcher.Get calls and registered-operator calls (with arguments and results, incl. failing calls) are compared with the effect trace of the reference semantics of Go's own optimised tree (VerifParse), fast operators having the fetch-both-leaves meaning; non-trivial = at least one effect; distinct = distinct (source, config, binding)",
		Assumptions: []string{"effects are observed through a recording VariableFetcher and recording registered operators"},
		Behav: []int{5, 2}, Fidelity: []int{3, 4, 8, 10, 15}, Ignore: []int{50, 1, 6, 7}, CodeText: evalCodeText,
		Gen: func(c *RunCtx) []*Batch {
			r := c.R
			b := evalBatch("C03", "eval_effects")
			n := c.N(700, 30000)
			for k := 0; k < n; k++ {
				t := randTree(r, randGenCfg(r))
				st, costs := randStateless(r), randCosts(r)
				for _, mask := range []int{15, r.Intn(16), r.Intn(16)} {
					// a sixth of the cases in undefined-variable mode (every variable has the same sentinel key)
					rc := &RunCfg{Opts: optSubset(mask, r.Bool()), Stateless: st, Costs: costs, Undefined: r.Intn(6) == 0}
					addEval(c, b, &EvalSpec{Tree: t, RC: rc, Bind: randBinding(r), DoEval: true, Tags: []string{fmt.Sprintf("subset:%d", mask)}})
				}
			}
			for _, t := range boundaryTrees() {
				for _, mask := range []int{0, 15} {
					addEval(c, b, &EvalSpec{Tree: t, RC: &RunCfg{Opts: optSubset(mask, false)}, Bind: randBinding(r), DoEval: true, Tags: []string{"boundary-depth"}})
				}
			}
			return []*Batch{b}
		},
	})
	tryGen := func(prop string, failing bool) func(c *RunCtx) []*Batch {
		return func(c *RunCtx) []*Batch {
			r := c.R
			b := evalBatch(prop, "tryeval")
			if prop == "C04" {
				probeAgreement(c)
			}
			n := c.N(700, 30000)
			for k := 0; k < n; k++ {
				gc := randGenCfg(r)
				if !failing {
					gc.WrongType, gc.FailVars = 0, false
				}
				t := randTree(r, gc)
				st, costs := randStateless(r), randCosts(r)
				for _, mask := range []int{15, r.Intn(16), 0} {
					rc := &RunCfg{Opts: optSubset(mask, r.Bool()), Stateless: st, Costs: costs, Events: r.Intn(6) == 0}
					bd := randBinding(r)
					if r.Intn(5) == 0 { // available variables whose value is nil (a JSON null; a registered variable nobody supplied)
						bd.Vals[pick(r, intVars)] = nil
						if r.Bool() {
							bd.Vals[pick(r, boolVars)] = nil
						}
					}
					var av map[string]bool
					if r.Intn(5) != 0 {
						av = randAvail(r, bd)
					}
					addEval(c, b, &EvalSpec{Tree: t, RC: rc, Bind: bd, Avail: av, DoEval: true, DoTry: true, Lazy: true, Tags: []string{fmt.Sprintf("subset:%d", mask)}})
				}
			}
			// operators with 15..40 operands (direct, and by flattening): a deciding or an unavailable operand at any position
			for k := 0; k < c.N(60, 2500); k++ {
				t, bd, av := wideTry(r)
				for _, mask := range []int{15, 0} {
					rc := &RunCfg{Opts: optSubset(mask, false)}
					addEval(c, b, &EvalSpec{Tree: t, RC: rc, Bind: bd, Avail: av, DoEval: true, DoTry: true, Lazy: true, Tags: []string{"wide-operator"}})
				}
			}
			// the library's own contexts (NewCtxFromVars): a variable registered after the context was built is unavailable to it
			for k := 0; k < c.N(60, 2500); k++ {
				libraryCtxCase(c, r)
			}
			// a registered operator that evaluates the SAME compiled expression for another context while the outer
			// evaluation is in progress (a rule inherited along a parent chain)
			for k := 0; k < c.N(40, 1500); k++ {
				reentrantTryCase(c, r)
			}
			return []*Batch{b}
		}
	}
	register(&PropDef{
		ID:   "C04",
		Rule: "random trees (incl. failing sub-expressions) x optimisation subsets x random available/unavailable splits x bindings, TryEval run with a truthful loading fetcher (Cached reports the split, Get would succeed for every variable) and compared with the tree-level meaning of TryEval `trysem` (outcome and fetch/call effects, so a read of an unavailable variable is visible); Eval on the full binding compared with `sem`; the library's own contexts (variables registered after the context was built, registered variables that are not supplied, nil-bound variables, a far key forcing the name-indexed fetcher); expressions whose registered operator evaluates the SAME compiled expression for a parent context (re-entrant TryEval/Eval); non-trivial = every case; distinct = distinct (source, config, binding, split)",
		Assumptions: []string{"the fetcher reports availability truthfully"},
		Behav:       []int{7, 5, 2, 16}, Fidelity: []int{3, 6, 4, 8, 10, 15}, Ignore: []int{50, 1}, CodeText: evalCodeText,
		Gen:         tryGen("C04", true),
	})
	register(&PropDef{
		ID:   "C05",
		Rule: "as C04 but without failing variables or wrong-typed operands (the property's domain: sub-expressions do not fail), DNE variables placed anywhere; TryEval compared with `trysem`, which the theorem equates with strong Kleene evaluation on non-failing expressions; event mode on for a sixth of the cases",
		Assumptions: []string{"the fetcher reports availability truthfully"},
		Behav:       []int{7, 2, 16}, Fidelity: []int{3, 6, 8, 10, 15}, Ignore: []int{50, 1, 4, 5}, CodeText: evalCodeText,
		Gen:         tryGen("C05", false),
	})
	register(&PropDef{
		ID:   "C12",
		Rule: "random trees x optimisation subsets x {ReportEvent, Debug} x {Eval, TryEval}: the OP_EXEC/LOOP events read from a buffered channel after the call returned (a retaining consumer) are compared with the model's observation stream (operator name, fast flag, arguments at call time, result or error; LOOP position, node and stack snapshot); Dump, Eval and TryEval results compared directly with the same source compiled without the event options (a quarter of the cases with BOTH options); a program of exactly 16384 real nodes with and without events; non-trivial = at least one OP_EXEC event; distinct = distinct (source, config, binding)",
		Assumptions: []string{"events are consumed from a channel with enough capacity, after the evaluation returned (consumer timing: retained); synchronous consumers are exercised by C07's concurrent runs"},
		Behav:       []int{5, 7, 2, 14}, Fidelity: []int{3, 4, 6, 8, 10, 15}, Ignore: []int{50, 1}, CodeText: evalCodeText,
		Gen: func(c *RunCtx) []*Batch {
			r := c.R
			b := evalBatch("C12", "events")
			n := c.N(600, 25000)
			for k := 0; k < n; k++ {
				t := randTree(r, randGenCfg(r))
				for _, mask := range []int{15, r.Intn(16)} {
					rc := &RunCfg{Opts: optSubset(mask, r.Bool()), Events: r.Bool()}
					rc.Debug = !rc.Events
					if r.Intn(4) == 0 {
						rc.Events, rc.Debug = true, true // both observer options at once: still one event per step
					}
					bd := randBinding(r)
					var av map[string]bool
					if r.Bool() {
						av = randAvail(r, bd)
					}
					addEval(c, b, &EvalSpec{Tree: t, RC: rc, Bind: bd, Avail: av, DoEval: true, DoTry: true, Lazy: true, Tags: []string{fmt.Sprintf("subset:%d", mask)}})
					eventsOffAgree(c, t, rc, bd, av)
				}
			}
			// the size boundary: 16384 real nodes (32768 with event nodes) and one step below it - either rejected or the same
			// results as without events (operand stack kept shallow: a left-nested chain)
			sizes := []int{5460}
			if c.Thor {
				sizes = []int{5460, 5459}
			}
			for _, levels := range sizes {
				t := gop("+", gvar("i0"), gconst(int64(1)), gconst(int64(1)))
				for k := 0; k < levels; k++ {
					t = gop("+", t, gvar("i0"), gconst(int64(1)))
				}
				bd := randBinding(r)
				bd.Vals["i0"] = int64(2)
				eventsOffAgree(c, t, &RunCfg{Opts: optSubset(0, true), Events: true, VarNames: []string{"i0"}}, bd, nil)
			}
			return []*Batch{b}
		},
	})
}

// wideTry: one operator (and/or/+/a registered one) with 15..40 leaf operands, all values neutral for the
// operator except possibly one deciding operand, and 0..2 unavailable variables at random positions
func wideTry(r *Rand) (*GT, *Binding, map[string]bool) {
	name := []string{"and", "or", "&&", "+", "c_sum", "*"}[r.Intn(6)]
	n := 15 + r.Intn(26)
	isBool := name == "and" || name == "or" || name == "&&"
	neutral := interface{}(int64(1))
	if isBool {
		neutral = name != "or"
	}
	bd := &Binding{Vals: map[string]interface{}{}}
	av := map[string]bool{}
	ch := make([]*GT, n)
	for i := range ch {
		vn := fmt.Sprintf("w%02d", i)
		ch[i] = gvar(vn)
		bd.Vals[vn] = neutral
		av[vn] = true
	}
	if isBool && r.Intn(3) == 0 {
		bd.Vals[fmt.Sprintf("w%02d", r.Intn(n))] = name == "or" // a deciding operand
	}
	for j := r.Intn(3); j > 0; j-- {
		av[fmt.Sprintf("w%02d", n-1-r.Intn(minInt(n, 6)))] = false // unavailable, preferably near the end
	}
	t := gop(name, ch...)
	if isBool && r.Intn(3) == 0 {
		// the same by nesting, flattened by ReduceNesting
		k := 1 + r.Intn(n-2)
		t = gop(name, gop(name, ch[:k]...), gop(name, ch[k:]...))
		if k < 2 || n-k < 2 {
			t = gop(name, ch...)
		}
	}
	return t, bd, av
}

func minInt(a, b int) int {
	if a < b {
		return a
	}
	return b
}

// eventsOffAgree compiles the same source with and without the event options and compares the decompiled
// program (Dump), Eval and TryEval directly.
func eventsOffAgree(c *RunCtx, t *GT, rc *RunCfg, bd *Binding, av map[string]bool) {
	show := func(o *EvalObs) string {
		if o.Panic != nil {
			return fmt.Sprintf("panic(%v)", o.Panic)
		}
		if o.Err != nil {
			return "error(" + o.Err.Error() + ")"
		}
		return fmt.Sprintf("%T(%v)", o.Val, o.Val)
	}
	var dump [2]string
	var res [2][2]string
	src := ""
	for i, on := range []bool{true, false} {
		r2 := *rc
		if !on {
			r2.Events, r2.Debug = false, false
		}
		b := r2.Build()
		b.setKeys(t, r2.Undefined)
		src = t.Src()
		e, err, pan := compileSafe(b.Conf, src)
		if pan != nil || err != nil {
			dump[i] = fmt.Sprintf("compile: %v %v", err, pan)
			continue
		}
		if len(src) < 20000 {
			dump[i] = eval.Dump(e)
		} else {
			dump[i] = "(not dumped: very large program)"
		}
		for j, try := range []bool{false, true} {
			f := &RecFetcher{Vals: bd.Vals}
			if try {
				f.Avail, f.Lazy = av, true
				if av == nil {
					f.Avail = map[string]bool{}
					for n := range bd.Vals {
						f.Avail[n] = true
					}
				}
			}
			res[i][j] = show(runExpr(e, b, &r2, f, try))
		}
	}
	c.Extra["events_on_off_pairs"] = asInt(c.Extra["events_on_off_pairs"]) + 1
	if strings.HasPrefix(dump[0], "compile:") && strings.Contains(dump[0], "32767") && !strings.HasPrefix(dump[1], "compile:") {
		return // the event-mode program exceeds the node limit: rejected, as the plain one is not
	}
	if dump[0] != dump[1] {
		c.Direct = append(c.Direct, DirectViolation{What: fmt.Sprintf("the decompiled program changes with the event options: %q vs %q", clip(dump[0], 200), clip(dump[1], 200)), Sig: "events-change-dump", Sample: src})
	}
	for j, what := range []string{"Eval", "TryEval"} {
		if res[0][j] != res[1][j] {
			c.Direct = append(c.Direct, DirectViolation{What: fmt.Sprintf("%s with events %s, without %s (config %s, binding %s)", what, res[0][j], res[1][j], rc.Describe(), fmt.Sprint(bd.Vals)), Sig: "events-change-result", Sample: src})
		}
	}
}

func asInt(x interface{}) int {
	if v, ok := x.(int); ok {
		return v
	}
	return 0
}

// probeAgreement replays the recorded C04 finding against the real code: all variables available,
// a non-boolean operand before a boolean last operand of and/or.
func probeAgreement(c *RunCtx) {
	for _, src := range []string{"(and 5 true)", "(or 7 false)", "(and x true)"} {
		cc := eval.NewConfig(eval.Optimizations(false), eval.RegVarAndOp(map[string]interface{}{"x": 5}))
		e, err := eval.Compile(cc, src)
		if err != nil {
			continue
		}
		ctx := eval.NewCtxFromVars(cc, map[string]interface{}{"x": 5})
		v1, e1 := e.Eval(ctx)
		v2, e2 := e.TryEval(ctx)
		if (e1 == nil) != (e2 == nil) || (e1 == nil && v1 != v2) {
			c.Direct = append(c.Direct, DirectViolation{What: fmt.Sprintf("all variables available, %s: Eval = %v/%v but TryEval = %v/%v", src, v1, e1, v2, e2),
				Sig: "c04-nonbool-before-last-boolean-operand", Sample: src})
			return
		}
	}
}

// libraryCtxCase: TryEval with the context the library builds itself (key-indexed or name-indexed fetcher) must answer
// exactly as with the harness's truthful fetcher in which the variables registered after the context was built are
// unavailable: DNE / the deciding operand, never an error and never a read of such a variable.
func libraryCtxCase(c *RunCtx, r *Rand) {
	vals := map[string]interface{}{}
	for _, n := range boolVars {
		vals[n] = r.Bool()
	}
	for _, n := range intVars {
		vals[n] = int64(r.Intn(7)) - 2
	}
	if r.Intn(3) == 0 { // variables bound to nil ARE available (name-indexed and key-indexed fetchers alike)
		vals[pick(r, boolVars)] = nil
		vals[pick(r, intVars)] = nil
	}
	undefined := r.Intn(3) == 0
	opts := []eval.Option{eval.RegVarAndOp(vals)}
	if r.Bool() {
		opts = append(opts, eval.Optimizations(false))
	}
	conf := eval.NewConfig(opts...)
	if undefined {
		conf.CompileOptions[eval.AllowUndefinedVariable] = true
	}
	if r.Intn(3) == 0 {
		conf.VariableKeyMap["far"] = 300 // a key beyond the key-indexed fetcher's range: the name-indexed fetcher is chosen
	} else if r.Bool() {
		// key 0 is a legal key the caller may choose (iota-style constants): the variable holding the LARGEST key moves
		// there, so that no key inside the key-indexed fetcher's range is left free for the late registrations below
		top, topKey := "", eval.VariableKey(-1)
		for n, k := range conf.VariableKeyMap {
			if k > topKey {
				top, topKey = n, k
			}
		}
		if top != "" {
			conf.VariableKeyMap[top] = 0
		}
	}
	// registered variables the caller does not supply: unavailable under the name-indexed fetcher, nil under the
	// key-indexed one (whichever NewCtxFromVars picks)
	supplied := map[string]interface{}{}
	for n, v := range vals {
		supplied[n] = v
	}
	var unsupplied []string
	if r.Intn(3) == 0 {
		for _, n := range []string{pick(r, boolVars), pick(r, intVars)} {
			if _, ok := supplied[n]; ok {
				delete(supplied, n)
				unsupplied = append(unsupplied, n)
			}
		}
	}
	ctx := eval.NewCtxFromVars(conf, supplied)
	late := []string{"late0", "late1", "late2"}[:1+r.Intn(3)]
	if !undefined {
		for _, n := range late {
			eval.GetOrRegisterKey(conf, n)
		}
	}
	g := &Gen{r: r, c: GenCfg{MaxDepth: 1 + r.Intn(3), MaxWidth: 3, Ifs: r.Bool(), OnlyBoolOps: r.Intn(3) != 0}}
	t := g.Bool(g.c.MaxDepth)
	var walk func(x *GT)
	walk = func(x *GT) {
		for i, ch := range x.Ch {
			if ch.Kind == "var" && strings.HasPrefix(ch.Name, "b") && r.Intn(3) == 0 {
				x.Ch[i] = gvar(pick(r, late))
			} else {
				walk(ch)
			}
		}
	}
	walk(t)
	if t.Kind != "op" && t.Kind != "if" {
		t = gop(pick(r, andNames), t, gvar(pick(r, late)))
	}
	src := t.Src()
	e, err, pan := compileSafe(conf, src)
	c.ExploreEvals++
	c.ExploreHist["library-ctx"]++
	if err != nil || pan != nil || e == nil {
		c.Notes = append(c.Notes, fmt.Sprintf("library-ctx: compile of %s: %v %v", src, err, pan))
		return
	}
	ref := &RecFetcher{Vals: map[string]interface{}{}, Avail: map[string]bool{}, Rec: &Recorder{}}
	for n, v := range vals {
		ref.Vals[n], ref.Avail[n] = v, true
	}
	for _, n := range late {
		ref.Vals[n], ref.Avail[n] = true, false
	}
	_, nameIndexed := ctx.VariableFetcher.(eval.MapVarFetcher)
	for _, n := range unsupplied {
		if nameIndexed {
			ref.Avail[n] = false
		} else {
			ref.Vals[n] = nil
		}
	}
	run := func(cx *eval.Ctx) (res string) {
		guarded(map[string]interface{}{"call": "TryEval (library context)", "source": src}, func() {
			defer func() {
				if p := recover(); p != nil {
					res = fmt.Sprintf("panic: %v", p)
				}
			}()
			v, er := e.TryEval(cx)
			if er != nil {
				res = "error: " + er.Error()
			} else {
				res = fmt.Sprintf("%T %v", v, v)
			}
		})
		return
	}
	got, want := run(ctx), run(&eval.Ctx{VariableFetcher: ref})
	if got != want {
		c.Direct = append(c.Direct, DirectViolation{What: "TryEval with the library's own context (variables registered after the context was built are unavailable to it) differs from TryEval with a truthful fetcher in which exactly those variables are unavailable",
			Sig: "library-ctx", Sample: map[string]interface{}{"source": src, "values": fmt.Sprint(vals), "registered_after_context": late, "registered_but_not_supplied": unsupplied, "allow_undefined": undefined,
				"fetcher": fmt.Sprintf("%T", ctx.VariableFetcher), "library_context": got, "truthful_fetcher": want}})
	}
}

// reentrantTryCase: the operator `inherit` evaluates the very expression it occurs in for the parent of the current
// context (leaf -> mid -> root), with TryEval or Eval. Every evaluation owns its operand stack, so the outer answer is
// what it would be had the inner call been a constant: computed here by hand for each template.
func reentrantTryCase(c *RunCtx, r *Rand) {
	type lv struct {
		a, b, u int64
		hp, q   bool
	}
	depth := 2 + r.Intn(2)
	chain := make([]lv, depth)
	for i := range chain {
		chain[i] = lv{a: int64(r.Intn(50)) + 1, b: int64(r.Intn(9)) + 2, u: int64(r.Intn(30)) + 100, hp: i < depth-1, q: r.Bool()}
	}
	uMissing := r.Bool() // the outermost context does not have `u`
	tmpl := r.Intn(4)
	src := []string{
		"(+ a (if hp (inherit) 0) (if q u 0))",
		"(* (+ a b) (if hp (inherit) 1) (if q u 1))",
		"(- (+ a b (if q u 0)) (if hp (inherit) 0) b)",
		"(if (and (> (+ a b) 0) (>= (if hp (inherit) 0) 0)) (+ b (if q u 0) a) 0)",
	}[tmpl]
	// expected value of level i (ok=false: not decidable, `u` is needed and missing)
	var want func(i int) (int64, bool)
	want = func(i int) (int64, bool) {
		l := chain[i]
		inner, okI := int64(0), true
		if tmpl == 1 {
			inner = 1
		}
		if l.hp {
			inner, okI = want(i + 1)
		}
		uv, okU := int64(0), true
		if tmpl == 1 {
			uv = 1
		}
		if l.q {
			uv = l.u
			okU = !(i == 0 && uMissing)
		}
		switch tmpl {
		case 0:
			return l.a + inner + uv, okI && okU
		case 1:
			return (l.a + l.b) * inner * uv, okI && okU
		case 2:
			return (l.a + l.b + uv) - inner - l.b, okI && okU
		default:
			return l.b + uv + l.a, okI && okU
		}
	}
	for _, useTry := range []bool{true, false} {
		var self *eval.Expr
		var ctxs []*eval.Ctx
		level := 0
		opts := []eval.Option{eval.RegVarAndOp(map[string]interface{}{"a": int64(0), "b": int64(0), "u": int64(0), "hp": false, "q": false})}
		if r.Bool() {
			opts = append(opts, eval.Optimizations(false))
		}
		conf := eval.NewConfig(opts...)
		conf.OperatorMap["inherit"] = func(_ *eval.Ctx, _ []eval.Value) (eval.Value, error) {
			level++
			defer func() { level-- }()
			if level >= len(ctxs) {
				return nil, fmt.Errorf("no parent")
			}
			if useTry {
				return self.TryEval(ctxs[level])
			}
			return self.Eval(ctxs[level])
		}
		e, err, pan := compileSafe(conf, src)
		c.ExploreEvals++
		c.ExploreHist["reentrant"]++
		if err != nil || pan != nil || e == nil {
			c.Notes = append(c.Notes, fmt.Sprintf("reentrant: compile of %s: %v %v", src, err, pan))
			return
		}
		self = e
		ctxs = nil
		for i, l := range chain {
			f := &RecFetcher{Vals: map[string]interface{}{"a": l.a, "b": l.b, "u": l.u, "hp": l.hp, "q": l.q}, Rec: &Recorder{}}
			if i == 0 && uMissing {
				f.Avail = map[string]bool{"a": true, "b": true, "hp": true, "q": true, "u": false}
			}
			ctxs = append(ctxs, &eval.Ctx{VariableFetcher: f})
		}
		wv, wok := want(0)
		wantS := fmt.Sprintf("int64 %d", wv)
		if !wok {
			if useTry {
				wantS = "DNE"
			} else {
				wantS = "error"
			}
		}
		got := ""
		guarded(map[string]interface{}{"call": "re-entrant evaluation", "source": src}, func() {
			defer func() {
				if p := recover(); p != nil {
					got = fmt.Sprintf("panic: %v", p)
				}
			}()
			level = 0
			var v eval.Value
			var er error
			if useTry {
				v, er = e.TryEval(ctxs[0])
			} else {
				v, er = e.Eval(ctxs[0])
			}
			switch {
			case er != nil:
				got = "error"
				if wok {
					got = "error: " + er.Error()
				}
			case v == eval.DNE:
				got = "DNE"
			default:
				got = fmt.Sprintf("%T %v", v, v)
			}
		})
		if got != wantS {
			what := "Eval"
			if useTry {
				what = "TryEval"
			}
			c.Direct = append(c.Direct, DirectViolation{What: what + " of an expression whose registered operator evaluates the same compiled expression for a parent context: the outer answer is not the one obtained with the inner value as a constant",
				Sig: "reentrant-" + what, Sample: map[string]interface{}{"source": src, "chain_leaf_to_root": fmt.Sprintf("%+v", chain), "u_unavailable_in_leaf": uMissing, "got": got, "want": wantS}})
		}
	}
}

// respellGoType: the same number / list of numbers as another Go type that unifies to the canonical one
func respellGoType(r *Rand, v interface{}) interface{} {
	switch x := v.(type) {
	case int64:
		switch r.Intn(6) {
		case 0:
			return int(x)
		case 1:
			if x >= -2147483648 && x <= 2147483647 {
				return int32(x)
			}
		case 2:
			if x >= -128 && x <= 127 {
				return int8(x)
			}
		case 3:
			if x >= 0 && x <= 255 {
				return uint8(x)
			}
		case 4:
			if x >= 0 {
				return uint64(x)
			}
		}
	case []int64:
		switch r.Intn(2) {
		case 0:
			l := make([]int, len(x))
			for i, e := range x {
				l[i] = int(e)
			}
			return l
		case 1:
			l := make([]int32, len(x))
			for i, e := range x {
				if e < -2147483648 || e > 2147483647 {
					return v
				}
				l[i] = int32(e)
			}
			return l
		}
	}
	return v
}
