package main

import (
	"fmt"
	"reflect"
	"runtime"
	"sort"
	"strings"
	"sync"

	eval "github.com/onheap/eval"
)

// snapshot of a compiled program (everything Eval/TryEval/Dump could possibly modify)
func snapshot(e *eval.Expr) string { return fmt.Sprintf("%#v", eval.VerifExport(e)) }

type callSpec struct {
	kind int // 0 Eval, 1 TryEval, 2 Dump, 3 DumpTable
	bind *Binding
	av   map[string]bool
}

func runCall(e *eval.Expr, b *Built, rc *RunCfg, cs callSpec) string {
	switch cs.kind {
	case 2:
		return eval.Dump(e)
	case 3:
		return eval.DumpTable(e, true)
	}
	f := &RecFetcher{Vals: cs.bind.Vals, Avail: cs.av, Lazy: true, Rec: &Recorder{}}
	ctx := &eval.Ctx{VariableFetcher: f}
	var v eval.Value
	var err error
	var pan interface{}
	func() {
		defer func() { pan = recover() }()
		if cs.kind == 1 {
			v, err = e.TryEval(ctx)
		} else {
			v, err = e.Eval(ctx)
		}
	}()
	return fmt.Sprintf("%s|%v|%v|%v", coqValue(v), err, pan, f.Rec.Log)
}

func deepTree(r *Rand) *GT {
	// an expression whose operand stack is deeper than 16: many non-foldable operands
	n := 17 + r.Intn(20)
	ch := make([]*GT, n)
	for i := range ch {
		switch r.Intn(3) {
		case 0:
			ch[i] = gvar(intVars[r.Intn(4)])
		case 1:
			ch[i] = gop("c_sum", gvar(intVars[r.Intn(4)]), gconst(int64(i)))
		default:
			ch[i] = gconst(int64(i))
		}
	}
	return gop("+", ch...)
}

func init() {
	register(&PropDef{
		ID:   "C07",
		Rule: "one shared compiled Expr (random trees incl. expressions with operand stacks deeper than 16, with and without event reporting) is used by 8..32 goroutines at once, each making 50..400 calls of Eval / TryEval / Dump / DumpTable with its own context and differing bindings (successes and failures); every result (value, error, ordered effects) is compared with the result of the same call made in isolation before, the exported program is compared before/after, and the whole run executes under the Go race detector (the harness re-executes itself built with -race); sequential histories with differing bindings are run first; plus the one-shot Eval(source, values) helper called sequentially and from 16 goroutines with per-call values and operator closures under the same names; non-trivial = every shared expression; distinct = distinct (source, config)",
		Assumptions: []string{"data races are a property of the Go memory model: they are detected by the race detector on the schedules that occurred, not proved absent", "event mode: every call in a run shares the Expr's EventChan, drained by one consumer (events are not attributed to calls)"},
		Gen: genC07,
	})
}

func genC07(c *RunCtx) []*Batch {
	r := c.R
	if !raceEnabled {
		// re-execute under the race detector
		return runRaceChild(c, "C07")
	}
	nExpr := c.N(90, 1500)
	calls, progs := 0, 0
	oneShotIsolation(c)
	for k := 0; k < nExpr; k++ {
		var t *GT
		if k%5 == 4 {
			// list constants that survive folding (the program holds slices: anything that writes through them shows)
			strs := []string{"alice", "bob", "x y", "q"}[:2+r.Intn(3)]
			ints := []int64{3, 1, 4, 1, 5}[:2+r.Intn(4)]
			switch r.Intn(6) {
			case 4, 5:
				// list constants past the 100-element switch of in/overlap, unsorted, against a bound list
				big := make([]int64, 100+r.Intn(60))
				for i := range big {
					big[i] = int64(r.Intn(1000)) - 500
				}
				bigS := make([]string, 100+r.Intn(60))
				for i := range bigS {
					bigS[i] = fmt.Sprintf("w%d", r.Intn(1000))
				}
				small := make([]int64, 20+r.Intn(20)) // the SHORTER list, unsorted, also a constant of the program
				for i := range small {
					small[i] = int64(r.Intn(1000)) - 500
				}
				switch r.Intn(3) {
				case 0:
					t = gop("overlap", gvar("li0"), gconst(big))
				case 1:
					// two constants: evaluated at run time whenever constant folding is off
					t = gop("or", gop("overlap", gconst(small), gconst(big)), gop("in", gvar("i0"), gconst(small)))
				default:
					t = gop("or", gop("overlap", gvar("ls0"), gconst(bigS)), gop("overlap", gconst(big), gvar("li0")))
				}
			case 0:
				t = gop("in", gvar("s0"), gconst(append([]string{}, strs...)))
			case 1:
				t = gop("overlap", gvar("ls0"), gconst(append([]string{}, strs...)))
			case 2:
				t = gop("or", gop("in", gvar("i0"), gconst(append([]int64{}, ints...))), gop("in", gvar("s0"), gconst(append([]string{}, strs...))))
			default:
				t = gif(gop("in", gvar("s1"), gconst(append([]string{}, strs...))), gconst(int64(1)), gop("+", gvar("i1"), gconst(int64(2))))
			}
		} else if r.Intn(3) == 0 {
			t = deepTree(r)
		} else if r.Intn(3) == 0 {
			// logic operators nested directly in one another (short-circuit jumps chained through several levels):
			// evaluated again and again with other bindings, the program must stay what it was
			t = logicNest(r, 3)
			if t.Kind != "op" {
				t = gop("c_id", t)
			}
		} else {
			gc := randGenCfg(r)
			gc.Wide = 0
			t = randTree(r, gc)
		}
		rc := &RunCfg{Opts: optSubset([]int{0, 15, r.Intn(16)}[r.Intn(3)], false), Events: r.Intn(4) == 0}
		vs := map[string]bool{}
		collectVars(t, vs)
		for n := range vs {
			rc.VarNames = append(rc.VarNames, n)
		}
		sort.Strings(rc.VarNames)
		b := rc.Build()
		e, err, pan := compileSafe(b.Conf, t.Src())
		if err != nil || pan != nil {
			continue
		}
		progs++
		if rc.Events {
			ch := make(chan eval.Event, 1024)
			e.EventChan = ch
			done := make(chan struct{})
			go func() {
				for range ch {
				}
				close(done)
			}()
			defer func() { close(ch); <-done }()
		}
		before := snapshot(e)
		// the call specifications and their isolated results (sequential history first)
		nspec := 6 + r.Intn(10)
		specs := make([]callSpec, nspec)
		want := make([]string, nspec)
		for i := range specs {
			bd := randBinding(r)
			specs[i] = callSpec{kind: []int{0, 0, 0, 1, 1, 2, 3}[r.Intn(7)], bind: bd}
			if specs[i].kind == 1 {
				specs[i].av = randAvail(r, bd)
			}
		}
		for i := range specs {
			want[i] = runCall(e, b, rc, specs[i])
		}
		// sequential re-run in another order: history independence
		for _, i := range []int{nspec - 1, 0, nspec / 2} {
			if got := runCall(e, b, rc, specs[i]); got != want[i] {
				c.Direct = append(c.Direct, DirectViolation{What: "a call returns something else after other calls ran before it (sequential history)", Sig: "c07-sequential",
					Sample: map[string]interface{}{"source": clip(t.Src(), 300), "want": clip(want[i], 300), "got": clip(got, 300)}})
			}
		}
		g := 8 + r.Intn(25)
		per := c.N(50, 400)
		var wg sync.WaitGroup
		var mu sync.Mutex
		bad := 0
		var firstBad string
		for gi := 0; gi < g; gi++ {
			wg.Add(1)
			seed := r.U64()
			go func() {
				defer wg.Done()
				lr := NewRand(seed)
				for j := 0; j < per; j++ {
					i := lr.Intn(nspec)
					got := runCall(e, b, rc, specs[i])
					if got != want[i] {
						mu.Lock()
						bad++
						if firstBad == "" {
							firstBad = fmt.Sprintf("want %s got %s", clip(want[i], 200), clip(got, 200))
						}
						mu.Unlock()
					}
					if j%16 == 0 {
						runtime.Gosched()
					}
				}
			}()
		}
		wg.Wait()
		calls += g * per
		if bad > 0 {
			c.Direct = append(c.Direct, DirectViolation{What: fmt.Sprintf("%d concurrent calls on one shared Expr returned something else than in isolation", bad), Sig: "c07-concurrent",
				Sample: map[string]interface{}{"source": clip(t.Src(), 300), "config": rc.Describe(), "first": firstBad}})
		}
		if after := snapshot(e); after != before {
			c.Direct = append(c.Direct, DirectViolation{What: "the compiled program was modified by Eval/TryEval/Dump/DumpTable", Sig: "c07-mutated", Sample: clip(t.Src(), 300)})
		}
		if len(c.ExploreSamples) < 5 {
			c.ExploreSamples = append(c.ExploreSamples, map[string]interface{}{"source": clip(t.Src(), 200), "goroutines": g, "calls_each": per, "events": rc.Events})
		}
	}
	c.ExploreEvals += calls
	c.ExploreDistinct += progs
	c.ExploreHist["shared-expressions"] = progs
	c.ExploreHist["concurrent-calls"] = calls
	return nil
}

// ---------- C08 ----------

type confSnap struct {
	consts, vars, ops, opts, costs string
	stateless                     []string
	statelessPtr                  uintptr
}

func snapConf(cc *eval.Config) confSnap {
	ks := func(m interface{}) string {
		v := reflect.ValueOf(m)
		var parts []string
		for _, k := range v.MapKeys() {
			val := v.MapIndex(k)
			if val.Kind() == reflect.Func {
				parts = append(parts, fmt.Sprintf("%v=func@%x", k, val.Pointer()))
			} else {
				parts = append(parts, fmt.Sprintf("%v=%#v", k, val.Interface()))
			}
		}
		sort.Strings(parts)
		return fmt.Sprint(parts)
	}
	s := confSnap{consts: ks(cc.ConstantMap), vars: ks(cc.VariableKeyMap), ops: ks(cc.OperatorMap), opts: ks(cc.CompileOptions), costs: ks(cc.CostsMap),
		stateless: append([]string(nil), cc.StatelessOperators...)}
	return s
}

func (a confSnap) equal(b confSnap) bool {
	return a.consts == b.consts && a.vars == b.vars && a.ops == b.ops && a.opts == b.opts && a.costs == b.costs && reflect.DeepEqual(a.stateless, b.stateless)
}

func init() {
	register(&PropDef{
		ID:   "C08",
		Rule: "histories of 5..40 operations over 2..4 shared Configs (constants incl. slices, variables, registered operators, costs, stateless lists built with spare capacity, option switches): Compile of random sources with every directive combination, CopyConfig, ExtendConf, mutation of the copies (map entries, slice elements, appends) and of their sources; after every Compile the Config contents are compared with a deep snapshot taken before; a copy and its source must never see each other's mutations; compiling the same (config contents, source) again, after other compilations, in permuted order and concurrently (under the race detector) must give the same Dump and DumpTable; nil Configs (Compile(nil, ...) before and after nil-Config compilations that carry directives, compared with an empty Config; two CopyConfig(nil) results mutated independently); non-trivial = every history; distinct = distinct histories",
		Assumptions: []string{"data races are detected by the race detector on the schedules that occurred, not proved absent"},
		Gen: genC08,
	})
}

func genC08(c *RunCtx) []*Batch {
	r := c.R
	if !raceEnabled {
		runRaceChild(c, "C08")
		return []*Batch{directiveBatch(c)}
	}
	nh := c.N(250, 10000)
	ops := 0
	for h := 0; h < nh; h++ {
		mk := func() *eval.Config {
			rc := &RunCfg{Opts: optSubset(r.Intn(16), r.Bool()), Costs: randCosts(r), Consts: map[string]interface{}{"K1": int64(3), "KL": []int64{1, 2, 3}, "KS": "s"},
				VarNames: append(append([]string{}, boolVars...), intVars...)}
			// list constants past the 100-element switch of in/overlap, unsorted: operators run on them at compile time
			// (constant folding) and at evaluation time; they are the caller's slices
			kbig, ksm := make([]int64, 110), make([]int64, 30)
			for i := range kbig {
				kbig[i] = int64((i*37)%211) - 100
			}
			for i := range ksm {
				ksm[i] = int64((i*53)%97) + 300
			}
			kstr := make([]string, 105)
			for i := range kstr {
				kstr[i] = fmt.Sprintf("w%d", (i*29)%131)
			}
			rc.Consts["KBIG"], rc.Consts["KSM"], rc.Consts["KSTR"], rc.Consts["KS2"] = kbig, ksm, kstr, []string{"zz", "b", "a"}
			cc := rc.Build().Conf
			// a stateless list with spare capacity
			sl := make([]string, 0, 8)
			for _, n := range randStatelessHeavy(r) {
				sl = append(sl, n)
			}
			cc.StatelessOperators = sl
			return cc
		}
		confs := []*eval.Config{mk(), mk()}
		type memo struct {
			snap confSnap
			src  string
			dump string
			tab  string
			conf *eval.Config
		}
		var memos []memo
		// an operator with a name of this history only, registered in both configs, declared stateless in the first only:
		// what the second config compiles must not depend on the first having compiled the same call before
		{
			hop := fmt.Sprintf("h%d_op", h)
			for _, cf := range confs {
				cf.OperatorMap[hop] = func(_ *eval.Ctx, ps []eval.Value) (eval.Value, error) { return int64(len(ps)), nil }
			}
			confs[0].StatelessOperators = append(confs[0].StatelessOperators, hop)
			src := "(+ (" + hop + " 1 2) i0)"
			dumpOf := func(cf *eval.Config) string {
				e, err, pan := compileSafe(cf, src)
				if err != nil || pan != nil || e == nil {
					return fmt.Sprintf("error: %v %v", err, pan)
				}
				return eval.Dump(e)
			}
			first := dumpOf(confs[1])
			declared := dumpOf(confs[0])
			again := dumpOf(confs[1])
			ops += 3
			if again != first {
				c.Direct = append(c.Direct, DirectViolation{What: "what a config compiles depends on what ANOTHER config compiled before (an operator declared stateless elsewhere is folded here)", Sig: "c08-cross-config",
					Sample: map[string]interface{}{"source": src, "undeclared_config_first": first, "declaring_config": declared, "undeclared_config_again": again}})
			}
		}
		// a nil Config means 'the default configuration', every time: what Compile(nil, ...) builds does not depend on what
		// was compiled with a nil Config before (directives included), and CopyConfig(nil) is a fresh configuration
		if h%3 == 0 {
			ct := closedTree(r, 3)
			plain := ct.Src()
			dumpNil := func(src string) string {
				e, err, pan := compileSafe(nil, src)
				if err != nil || pan != nil || e == nil {
					return fmt.Sprintf("error: %v %v", err, pan)
				}
				return eval.Dump(e)
			}
			ref := func() string {
				e, err, pan := compileSafe(eval.NewConfig(), plain)
				if err != nil || pan != nil || e == nil {
					return fmt.Sprintf("error: %v %v", err, pan)
				}
				return eval.Dump(e)
			}()
			first := dumpNil(plain)
			dumpNil(directiveFor(r.Intn(16), r) + plain)
			dumpNil(";;;; optimize: false\n" + plain)
			again := dumpNil(plain)
			ops += 5
			if first != ref || again != ref {
				c.Direct = append(c.Direct, DirectViolation{What: "Compile with a nil Config depends on earlier compilations with a nil Config (or differs from an empty Config)", Sig: "c08-nil-config",
					Sample: map[string]interface{}{"source": plain, "empty_config": ref, "nil_config_first": first, "nil_config_after_directives": again}})
			}
			c1, c2 := eval.CopyConfig(nil), eval.CopyConfig(nil)
			if c1 != nil && c2 != nil {
				c1.CompileOptions[eval.Reordering] = false
				c1.ConstantMap["KNIL"] = int64(1)
				c1.VariableKeyMap["vnil"] = 7
				if len(c2.CompileOptions) != 0 || len(c2.ConstantMap) != 0 || len(c2.VariableKeyMap) != 0 || c1 == c2 {
					c.Direct = append(c.Direct, DirectViolation{What: "two CopyConfig(nil) results share state", Sig: "c08-nil-copy-shared", Sample: fmt.Sprint(snapConf(c2))})
				}
				delete(c1.CompileOptions, eval.Reordering)
				delete(c1.ConstantMap, "KNIL")
				delete(c1.VariableKeyMap, "vnil")
			}
		}
		nop := 5 + r.Intn(36)
		for o := 0; o < nop; o++ {
			ops++
			ci := r.Intn(len(confs))
			cc := confs[ci]
			switch r.Intn(10) {
			case 0, 1, 2, 3, 4: // Compile (with directives)
				gc := randGenCfg(r)
				gc.Wide, gc.FailVars = 0, false
				t := randTree(r, gc)
				if r.Intn(6) == 0 {
					t = []*GT{gop("overlap", gvar2c("KSM"), gvar2c("KBIG")), gop("overlap", gvar2c("KBIG"), gvar2c("KSM")), gop("overlap", gvar2c("KS2"), gvar2c("KSTR")),
						gop("or", gop("in", gvar("i0"), gvar2c("KSM")), gop("overlap", gvar2c("KSM"), gvar2c("KBIG")))}[r.Intn(4)]
				} else if r.Bool() {
					// constant-rich: what is folded at compile time depends on THIS config's stateless declarations only,
					// whatever other configurations in the process declare
					t = constRichTree(r)
				}
				src := directiveFor(r.Intn(16), r) + t.Src()
				before := snapConf(cc)
				e, err, pan := compileSafe(cc, src)
				if pan != nil {
					continue
				}
				if after := snapConf(cc); !after.equal(before) {
					c.Direct = append(c.Direct, DirectViolation{What: "Compile modified the caller's Config", Sig: "c08-compile-mutates",
						Sample: map[string]interface{}{"source": clip(src, 200), "before": fmt.Sprint(before), "after": fmt.Sprint(after)}})
				}
				if err == nil {
					memos = append(memos, memo{snap: before, src: src, dump: eval.Dump(e), tab: eval.DumpTable(e, false), conf: cc})
				}
			case 5: // recompile something compiled earlier under an equal config: same program
				if len(memos) == 0 {
					continue
				}
				m := memos[r.Intn(len(memos))]
				if !snapConf(m.conf).equal(m.snap) {
					continue // that config was mutated by the history since (a caller-side mutation)
				}
				e, err, _ := compileSafe(m.conf, m.src)
				if err != nil || eval.Dump(e) != m.dump || eval.DumpTable(e, false) != m.tab {
					c.Direct = append(c.Direct, DirectViolation{What: "compiling the same source with an unchanged config again gives a different program", Sig: "c08-nondeterministic",
						Sample: map[string]interface{}{"source": clip(m.src, 200), "first": clip(m.dump, 200)}})
				}
			case 6, 7: // CopyConfig / ExtendConf, then mutate the copy; the source must not change (and vice versa)
				var cp *eval.Config
				if r.Bool() {
					cp = eval.CopyConfig(cc)
				} else {
					cp = eval.NewConfig(eval.ExtendConf(cc))
				}
				srcBefore := snapConf(cc)
				if !snapConf(cp).equal(srcBefore) {
					c.Direct = append(c.Direct, DirectViolation{What: "a copied Config does not have the contents of its source", Sig: "c08-copy-differs", Sample: fmt.Sprint(srcBefore)})
				}
				cp.ConstantMap["K1"] = int64(99)
				cp.VariableKeyMap["zz"] = 77
				cp.CostsMap["b0"] = 123
				cp.CompileOptions[eval.Reordering] = !cp.CompileOptions[eval.Reordering]
				cp.OperatorMap["c_new"] = func(*eval.Ctx, []eval.Value) (eval.Value, error) { return nil, nil }
				if len(cp.StatelessOperators) > 0 {
					cp.StatelessOperators[0] = "mutated"
				}
				cp.StatelessOperators = append(cp.StatelessOperators, "appended_to_copy")
				if !snapConf(cc).equal(srcBefore) {
					c.Direct = append(c.Direct, DirectViolation{What: "mutating a copy made by CopyConfig/ExtendConf changed its source", Sig: "c08-copy-shares-state",
						Sample: map[string]interface{}{"before": fmt.Sprint(srcBefore), "after": fmt.Sprint(snapConf(cc))}})
				}
				// a sibling copy taken now, then both appended to: they must not overwrite each other
				cp2 := eval.CopyConfig(cc)
				cpx := eval.CopyConfig(cc)
				cp2.StatelessOperators = append(cp2.StatelessOperators, "sib_a")
				cpx.StatelessOperators = append(cpx.StatelessOperators, "sib_b")
				if n := len(cp2.StatelessOperators); n == 0 || cp2.StatelessOperators[n-1] != "sib_a" {
					c.Direct = append(c.Direct, DirectViolation{What: "two copies of one Config share the backing array of StatelessOperators", Sig: "c08-sibling-append", Sample: fmt.Sprint(cp2.StatelessOperators)})
				}
				if len(confs) < 4 && r.Bool() {
					confs = append(confs, eval.CopyConfig(cc))
				}
			case 8: // caller-side mutation of a config (invalidates its memos)
				cc.CostsMap[boolVars[r.Intn(4)]] = float64(r.Intn(50))
			default: // concurrent compilation of the same source with the same config
				if len(memos) == 0 {
					continue
				}
				m := memos[r.Intn(len(memos))]
				if !snapConf(m.conf).equal(m.snap) {
					continue
				}
				var wg sync.WaitGroup
				res := make([]string, 6)
				for gi := range res {
					wg.Add(1)
					go func(gi int) {
						defer wg.Done()
						e, err, _ := compileSafe(m.conf, m.src)
						if err == nil {
							res[gi] = eval.Dump(e) + eval.DumpTable(e, false)
						}
					}(gi)
				}
				wg.Wait()
				for _, s := range res {
					if s != m.dump+m.tab {
						c.Direct = append(c.Direct, DirectViolation{What: "concurrent compilations of the same source with the same config differ", Sig: "c08-concurrent", Sample: clip(m.src, 200)})
						break
					}
				}
			}
		}
		if len(c.ExploreSamples) < 4 {
			c.ExploreSamples = append(c.ExploreSamples, map[string]interface{}{"history_ops": nop, "configs": len(confs), "programs_memoised": len(memos)})
		}
	}
	c.ExploreEvals += ops
	c.ExploreDistinct += nh
	c.ExploreHist["histories"] = nh
	c.ExploreHist["operations"] = ops
	return nil
}

// directiveBatch: parseConfig against the model (initial switches, leading comment lines, resulting switches or error)
func directiveBatch(c *RunCtx) *Batch {
	r := c.R
	b := &Batch{Prop: "C08", Name: "directives", Imports: "Require Import Base Tables Ops Tree Opt Directives DirCorr.", CaseType: "dcase", ChkFn: "chk_dir", OutFn: "out_dir"}
	spaces := []string{"", " ", "  ", "\t", "\u00a0", "\u3000", " \t "}
	sp := func() string { return spaces[r.Intn(len(spaces))] }
	bools := []string{"true", "false", "1", "0", "t", "f", "T", "F", "TRUE", "FALSE", "True", "False", "yes", "", "tru", "2"}
	names := append(append([]string{}, optNames...), "optimize", "optimize", "debug", "report_event", "infix_notation", "Reordering", "", "fold")
	n := c.N(1200, 40000)
	for k := 0; k < n; k++ {
		init := map[string]bool{}
		for _, nme := range optNames {
			if r.Intn(3) == 0 {
				init[nme] = r.Bool()
			}
		}
		var lines []string
		for i := 0; i < r.Intn(4); i++ {
			switch r.Intn(8) {
			case 0:
				lines = append(lines, "; an ordinary comment, optimize:false")
			case 1:
				lines = append(lines, ";;; three semicolons reordering:false")
			default:
				var items []string
				for j := 0; j < 1+r.Intn(3); j++ {
					nm := names[r.Intn(len(names))]
					bv := bools[r.Intn(len(bools))]
					if r.Intn(12) != 0 && r.Intn(3) != 0 { // mostly valid
						nm = names[r.Intn(6)]
						bv = bools[r.Intn(12)]
					}
					item := sp() + nm + sp() + ":" + sp() + bv + sp()
					if r.Intn(25) == 0 {
						item = nm + bv // no colon
					}
					if r.Intn(40) == 0 {
						item += ":x"
					}
					items = append(items, item)
				}
				lines = append(lines, sp()+";;;;"+sp()+strings.Join(items, ","))
			}
		}
		src := strings.Join(lines, "\n")
		if len(lines) > 0 {
			src += "\n"
		}
		// a directive after the first token must be ignored
		src += "(+ 1 ; ;;;; optimize:false\n 2)\n;;;; reordering:false"
		conf := eval.NewConfig()
		for kk, v := range init {
			conf.CompileOptions[eval.CompileOption(kk)] = v
		}
		_, cc, err := eval.VerifParse(conf, src, false)
		obs := "None"
		if err == nil {
			var sw []string
			for _, nme := range optNames {
				v, ok := cc.CompileOptions[eval.CompileOption(nme)]
				sw = append(sw, coqBool(v || !ok))
			}
			obs = "Some " + coqList(sw)
		}
		var in []string
		ks := make([]string, 0, len(init))
		for kk := range init {
			ks = append(ks, kk)
		}
		sort.Strings(ks)
		for _, kk := range ks {
			in = append(in, fmt.Sprintf("(%q, %s)", kk, coqBool(init[kk])))
		}
		cl := make([]string, len(lines))
		for i, l := range lines {
			// the lexer's comment token starts at the ';' (leading blanks are skipped)
			cl[i] = coqStr(strings.TrimLeft(l, " \t\u00a0\u3000"))
		}
		term := fmt.Sprintf("(%s%%string, %s, %s)", coqList(in), coqList(cl), obs)
		tag := "directives:ok"
		if err != nil {
			tag = "directives:error"
		}
		b.Cases = append(b.Cases, Case{Term: term, Key: term, Nontrivial: len(lines) > 0, Tags: []string{tag},
			Sample: map[string]interface{}{"lines": lines, "initial": fmt.Sprint(init), "go": obs}})
	}
	return b
}

// closedTree: a boolean expression over literals only (compiles under any configuration, a nil one included), with
// foldable sub-expressions, nested and/or to flatten and operands of different cost to reorder
func closedTree(r *Rand, depth int) *GT {
	arith := func() *GT {
		if r.Bool() {
			return gconst(int64(r.Intn(7)))
		}
		return gop([]string{"+", "-", "*"}[r.Intn(3)], gconst(int64(r.Intn(5))), gconst(int64(1+r.Intn(4))))
	}
	if depth <= 0 || r.Intn(4) == 0 {
		return gop([]string{"=", "<", ">=", "!="}[r.Intn(4)], arith(), arith())
	}
	name := []string{"and", "or", "&&", "||"}[r.Intn(4)]
	n := 2 + r.Intn(3)
	ch := make([]*GT, n)
	for i := range ch {
		switch r.Intn(5) {
		case 0:
			ch[i] = gop("not", closedTree(r, depth-1))
		case 1:
			ch[i] = gop(name, closedTree(r, depth-1), closedTree(r, depth-2))
		default:
			ch[i] = closedTree(r, depth-1)
		}
	}
	return gop(name, ch...)
}

// oneShotIsolation: the one-shot helper Eval(source, values) evaluates with the values and operators of ITS call: the same
// source evaluated again - sequentially and from many goroutines - with other variable values and other operator
// closures under the same names gives each caller its own answer.
func oneShotIsolation(c *RunCtx) {
	srcs := []string{"(+ (quota x) y)", "(if (> (quota x) 50) \"over\" \"ok\")", "(and (= (quota x) (quota x)) (< y (quota y)))"}
	want := func(src string, k, x, y int64) interface{} {
		q := func(v int64) int64 { return v + 100*k }
		switch src {
		case srcs[0]:
			return q(x) + y
		case srcs[1]:
			if q(x) > 50 {
				return "over"
			}
			return "ok"
		default:
			return y < q(y)
		}
	}
	call := func(src string, k, x, y int64) (res string) {
		defer func() {
			if p := recover(); p != nil {
				res = fmt.Sprintf("panic: %v", p)
			}
		}()
		vals := map[string]interface{}{"x": x, "y": y,
			"quota": func(_ *eval.Ctx, ps []eval.Value) (eval.Value, error) { return ps[0].(int64) + 100*k, nil }}
		v, err := eval.Eval(src, vals)
		if err != nil {
			return "error: " + err.Error()
		}
		return fmt.Sprintf("%T %v", v, v)
	}
	bad := func(how, src string, k, x, y int64, got string) {
		c.Direct = append(c.Direct, DirectViolation{What: "the one-shot Eval(source, values) helper answered with another call's values or operators (" + how + ")", Sig: "c07-one-shot",
			Sample: map[string]interface{}{"source": src, "k": k, "x": x, "y": y, "got": got, "want": fmt.Sprintf("%T %v", want(src, k, x, y), want(src, k, x, y))}})
	}
	for _, src := range srcs {
		for k := int64(0); k < 4; k++ {
			x, y := 10*k+3, 7-k
			c.ExploreEvals++
			if got := call(src, k, x, y); got != fmt.Sprintf("%T %v", want(src, k, x, y), want(src, k, x, y)) {
				bad("sequential calls", src, k, x, y, got)
				return
			}
		}
		var wg sync.WaitGroup
		var mu sync.Mutex
		failed := false
		for g := 0; g < 16; g++ {
			wg.Add(1)
			go func(g int64) {
				defer wg.Done()
				for i := int64(0); i < 8; i++ {
					k, x, y := (g+i)%5, g*3+i, i-g
					if got := call(src, k, x, y); got != fmt.Sprintf("%T %v", want(src, k, x, y), want(src, k, x, y)) {
						mu.Lock()
						if !failed {
							failed = true
							bad("concurrent calls", src, k, x, y, got)
						}
						mu.Unlock()
					}
				}
			}(int64(g))
		}
		wg.Wait()
		c.ExploreEvals += 128
		if failed {
			return
		}
	}
	c.ExploreHist["one-shot-helper"] += 3
}
