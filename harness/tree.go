package main

import (
	"fmt"
	"math"
	"strconv"
	"strings"
)

// GT is the harness's own expression tree (independent of the implementation's AST).
type GT struct {
	Kind string // "const", "var", "op", "if"
	Val  interface{}
	Name string // variable / operator name; for const: optional source spelling (ConstantMap name)
	Fast bool
	Key  int16
	Ch   []*GT
}

func gconst(v interface{}) *GT           { return &GT{Kind: "const", Val: v} }
func gvar(n string) *GT                  { return &GT{Kind: "var", Name: n} }
func gop(n string, ch ...*GT) *GT        { return &GT{Kind: "op", Name: n, Ch: ch} }
func gif(c, a, b *GT) *GT                { return &GT{Kind: "if", Ch: []*GT{c, a, b}} }
func (t *GT) size() int {
	n := 1
	if t.Kind == "if" {
		n = 2
	}
	for _, c := range t.Ch {
		n += c.size()
	}
	return n
}
func (t *GT) depth() int {
	d := 0
	for _, c := range t.Ch {
		if x := c.depth(); x > d {
			d = x
		}
	}
	return d + 1
}

// ---------- rendering to prefix source ----------

func srcValue(v interface{}) string {
	switch x := v.(type) {
	case int64:
		return strconv.FormatInt(x, 10)
	case bool:
		if x {
			return "true"
		}
		return "false"
	case string:
		return `"` + x + `"`
	case []int64:
		p := make([]string, len(x))
		for i, z := range x {
			p[i] = strconv.FormatInt(z, 10)
		}
		return "(" + strings.Join(p, " ") + ")"
	case []string:
		p := make([]string, len(x))
		for i, z := range x {
			p[i] = `"` + z + `"`
		}
		return "(" + strings.Join(p, " ") + ")"
	}
	panic(fmt.Sprintf("srcValue: %T", v))
}

func (t *GT) Src() string {
	var sb strings.Builder
	t.src(&sb)
	return sb.String()
}
func (t *GT) src(sb *strings.Builder) {
	switch t.Kind {
	case "const":
		if t.Name != "" {
			sb.WriteString(t.Name)
		} else {
			sb.WriteString(srcValue(t.Val))
		}
	case "var":
		sb.WriteString(t.Name)
	case "op":
		sb.WriteString("(" + t.Name)
		for _, c := range t.Ch {
			sb.WriteByte(' ')
			c.src(sb)
		}
		sb.WriteByte(')')
	case "if":
		sb.WriteString("(if")
		for _, c := range t.Ch {
			sb.WriteByte(' ')
			c.src(sb)
		}
		sb.WriteByte(')')
	}
}

// ---------- Coq term ----------

func coqBool(b bool) string {
	if b {
		return "true"
	}
	return "false"
}

func (t *GT) Coq() string {
	var sb strings.Builder
	t.coq(&sb)
	return sb.String()
}
func (t *GT) coq(sb *strings.Builder) {
	switch t.Kind {
	case "const":
		sb.WriteString("TConst (" + coqValue(t.Val) + ")")
	case "var":
		sb.WriteString("TVar " + coqStr(t.Name) + " " + coqZ(int64(t.Key)))
	case "op":
		sb.WriteString("TOp " + coqStr(t.Name) + " " + coqBool(t.Fast) + " [")
		for i, c := range t.Ch {
			if i > 0 {
				sb.WriteString("; ")
			}
			c.coq(sb)
		}
		sb.WriteString("]")
	case "if":
		sb.WriteString("TIf (")
		t.Ch[0].coq(sb)
		sb.WriteString(") (")
		t.Ch[1].coq(sb)
		sb.WriteString(") (")
		t.Ch[2].coq(sb)
		sb.WriteString(")")
	}
}

// ---------- typed random generation ----------

type GenCfg struct {
	MaxDepth   int
	MaxWidth   int
	WrongType  int // percent: replace a well-typed operand by one of another type
	FailVars   bool
	UnaryBool  bool // allow and/or with 0/1 operands
	Custom     bool
	Ifs        bool
	Lists      bool
	Convert    bool // version/date operators
	Wide       int  // percent: wide (13..127) nodes
	ConstNames bool // constants from ConstantMap
	OnlyBoolOps bool
	NonBoolInBoolOp int // percent: put a non-boolean (non-failing) operand under and/or (outside C01's domain)
}

var andNames = []string{"and", "&", "&&"}
var orNames = []string{"or", "|", "||"}
var notNames = []string{"not", "!"}
var eqNames = []string{"eq", "=", "=="}
var cmpNames = []string{"gt", "lt", "ge", "le", ">", "<", ">=", "<=", "ne", "!="}
var arithSafe = []string{"add", "sub", "mul", "+", "-", "*"}
var arithDiv = []string{"div", "mod", "/", "%"}

// constants every harness configuration defines (Config.ConstantMap)
var stdConsts = map[string]interface{}{"KT": true, "KF": false, "K7": int64(7), "KSTR1": "abc", "KGOINT": int(2)}

var boolVars = []string{"b0", "b1", "b2", "b3"}
var intVars = []string{"i0", "i1", "i2", "i3"}
var strVars = []string{"s0", "s1"}
var failVars = []string{"f0", "f1"}

type Gen struct {
	r      *Rand
	c      GenCfg
	budget int // remaining nodes; 0 = not initialised
	init   bool
}

func (g *Gen) spend() bool {
	if !g.init {
		g.init = true
		g.budget = 600
	}
	g.budget--
	return g.budget > 0
}

func pick(r *Rand, l []string) string { return l[r.Intn(len(l))] }

func (g *Gen) width() int {
	r := g.r
	if g.c.Wide > 0 && r.Chance(g.c.Wide) {
		return 13 + r.Intn(115)
	}
	switch x := r.Intn(20); {
	case x == 0 && g.c.UnaryBool:
		return 0
	case x == 1 && g.c.UnaryBool:
		return 1
	case x < 12:
		return 2
	case x < 17:
		return 3
	default:
		w := 2 + r.Intn(g.c.MaxWidth)
		return w
	}
}

func (g *Gen) smallInt() int64 {
	r := g.r
	switch r.Intn(8) {
	case 0:
		return 0
	case 1:
		return intPool[r.Intn(len(intPool))]
	default:
		return int64(r.Intn(11)) - 3
	}
}

func (g *Gen) Bool(d int) *GT {
	r := g.r
	if g.c.WrongType > 0 && r.Chance(g.c.WrongType) {
		return g.Int(d)
	}
	if !g.spend() {
		d = 0
	}
	if d <= 0 || r.Intn(5) == 0 {
		switch x := r.Intn(10); {
		case x < 3:
			if r.Intn(3) == 0 { // a constant of the configuration (Config.ConstantMap), e.g. a feature switch
				if r.Bool() {
					return &GT{Kind: "const", Val: true, Name: "KT"}
				}
				return &GT{Kind: "const", Val: false, Name: "KF"}
			}
			return gconst(r.Bool())
		case x == 3 && g.c.FailVars:
			return gvar(pick(r, failVars))
		case x == 4 && g.c.Custom:
			return gop(pick(r, []string{"c_yes", "c_no"}))
		default:
			return gvar(pick(r, boolVars))
		}
	}
	x := r.Intn(100)
	if g.c.OnlyBoolOps && x >= 46 {
		x = r.Intn(46)
	}
	switch {
	case x < 20:
		return gop(pick(r, andNames), g.boolOperands(d)...)
	case x < 40:
		return gop(pick(r, orNames), g.boolOperands(d)...)
	case x < 46:
		if g.c.Ifs {
			return gif(g.Bool(d-1), g.Bool(d-1), g.Bool(d-1))
		}
		return gop(pick(r, notNames), g.Bool(d-1))
	case x < 52:
		return gop(pick(r, notNames), g.Bool(d-1))
	case x < 62:
		return gop(pick(r, cmpNames), g.Int(d-1), g.Int(d-1))
	case x < 70:
		if r.Intn(5) == 0 {
			// a string variable against a string LITERAL (or a string constant of the configuration): two leaves, so a
			// fast operator when that optimisation is on - the literal must stay a constant there, for Eval and TryEval
			lit := gconst(randStr(r))
			if r.Intn(4) == 0 {
				lit = &GT{Kind: "const", Val: "abc", Name: "KSTR1"}
			}
			v := gvar(pick(r, strVars))
			if r.Bool() {
				return gop(pick(r, eqNames), v, lit)
			}
			return gop(pick(r, eqNames), lit, v)
		}
		n := 2
		if r.Intn(3) == 0 {
			n = 2 + r.Intn(3)
		}
		ch := make([]*GT, n)
		for i := range ch {
			if r.Intn(4) == 0 {
				ch[i] = g.Bool(d - 1)
			} else {
				ch[i] = g.Int(d - 1)
			}
		}
		if r.Intn(6) == 0 { // a list among the operands of an n-ary eq: a type error wherever it stands
			ch = append(ch, gconst([]int64{1, 2}))
		}
		return gop(pick(r, eqNames), ch...)
	case x < 74:
		return gop("between", g.Int(d-1), g.Int(d-1), g.Int(d-1))
	case x < 78:
		return gop("xor", g.Bool(d-1), g.Bool(d-1))
	case x < 84 && g.c.Lists:
		if r.Bool() {
			return gop("in", g.Int(d-1), g.IntList())
		}
		return gop("overlap", g.IntList(), g.IntList())
	case x < 92 && g.c.Custom:
		switch r.Intn(4) {
		case 0:
			n := r.Intn(4)
			ch := make([]*GT, n)
			for i := range ch {
				ch[i] = g.Int(d - 1)
			}
			return gop("c_not0", ch...)
		case 1:
			return gop("c_id", g.Bool(d-1))
		case 2:
			return gop("c_fail", g.Int(d-1))
		default:
			return gop(pick(r, []string{"c_yes", "c_no"}))
		}
	default:
		return gop(pick(r, cmpNames), g.Int(d-1), g.Int(d-1))
	}
}

func (g *Gen) boolOperands(d int) []*GT {
	n := g.width()
	ch := make([]*GT, n)
	for i := range ch {
		dd := d - 1
		if n > 6 {
			dd = 0
			if g.r.Intn(6) == 0 {
				dd = 1
			}
		}
		if g.c.NonBoolInBoolOp > 0 && g.r.Chance(g.c.NonBoolInBoolOp) {
			ch[i] = gconst(int64(5))
		} else {
			ch[i] = g.Bool(dd)
		}
	}
	return ch
}

func (g *Gen) Int(d int) *GT {
	r := g.r
	if g.c.WrongType > 0 && r.Chance(g.c.WrongType) {
		switch r.Intn(3) {
		case 0:
			return gconst("str")
		case 1:
			return gconst(r.Bool())
		default:
			return gconst([]int64{1, 2})
		}
	}
	if !g.spend() {
		d = 0
	}
	if d <= 0 || r.Intn(4) == 0 {
		switch x := r.Intn(10); {
		case x < 5:
			if r.Intn(6) == 0 {
				return &GT{Kind: "const", Val: int64(7), Name: "K7"}
			}
			return gconst(g.smallInt())
		case x == 5 && g.c.FailVars:
			return gvar(pick(r, failVars))
		case x == 6 && g.c.Custom:
			return gop("c_now")
		default:
			return gvar(pick(r, intVars))
		}
	}
	x := r.Intn(100)
	switch {
	case x < 45:
		n := 2
		if r.Intn(3) == 0 {
			n = 2 + r.Intn(g.c.MaxWidth)
		}
		if g.c.Wide > 0 && r.Chance(g.c.Wide) {
			n = 13 + r.Intn(115)
		}
		ch := make([]*GT, n)
		for i := range ch {
			dd := d - 1
			if n > 6 {
				dd = 0
			}
			ch[i] = g.Int(dd)
		}
		return gop(pick(r, arithSafe), ch...)
	case x < 60:
		return gop(pick(r, arithDiv), g.Int(d-1), g.Int(d-1))
	case x < 75 && g.c.Ifs:
		return gif(g.Bool(d-1), g.Int(d-1), g.Int(d-1))
	case x < 88 && g.c.Custom:
		switch r.Intn(3) {
		case 0:
			n := r.Intn(4)
			ch := make([]*GT, n)
			for i := range ch {
				ch[i] = g.Int(d - 1)
			}
			return gop("c_sum", ch...)
		case 1:
			return gop("c_first", g.Int(d-1), g.Int(d-1))
		default:
			return gop("c_now")
		}
	case x < 92 && g.c.Convert:
		return gop(pick(r, []string{"version", "t_version", "to_version"}), gconst(fmt.Sprintf("%d.%d.%d", r.Intn(12), r.Intn(10001), r.Intn(5))))
	default:
		return gop(pick(r, arithSafe), g.Int(d-1), g.Int(d-1))
	}
}

func (g *Gen) IntList() *GT {
	r := g.r
	if r.Intn(4) == 0 {
		return gvar("li0")
	}
	n := r.Intn(4)
	l := make([]int64, n)
	for i := range l {
		l[i] = int64(r.Intn(6))
	}
	if n == 0 {
		return gconst([]string{}) // the empty literal is a string list
	}
	return gconst(l)
}

// ---------- bindings ----------

type Binding struct {
	Vals map[string]interface{} // value or *UserErr
}

func randBinding(r *Rand) *Binding {
	b := &Binding{Vals: map[string]interface{}{}}
	for _, n := range boolVars {
		b.Vals[n] = r.Bool()
	}
	for _, n := range intVars {
		switch r.Intn(6) {
		case 0:
			b.Vals[n] = int64(0)
		case 1:
			b.Vals[n] = intPool[r.Intn(len(intPool))]
		default:
			b.Vals[n] = int64(r.Intn(9)) - 2
		}
	}
	for _, n := range strVars {
		b.Vals[n] = randStr(r)
	}
	b.Vals["li0"] = []int64{1, 2, int64(r.Intn(5))}
	b.Vals["ls0"] = []string{"a", "b"}
	for i, n := range failVars {
		b.Vals[n] = userErrs[1+i+2*r.Intn(2)]
	}
	return b
}

var _ = math.MaxInt64

// logicNest: logic operators (and/or/xor with all their spellings, not) nested directly in one another over boolean
// leaves only (variables, literals, configuration constants) - the shapes on which nesting reduction, fast marking,
// reordering and the short-circuit flags interact; no other operator in between
func logicNest(r *Rand, d int) *GT {
	leaf := func() *GT {
		switch r.Intn(8) {
		case 0:
			return gconst(r.Bool())
		case 1:
			if r.Bool() {
				return &GT{Kind: "const", Val: true, Name: "KT"}
			}
			return &GT{Kind: "const", Val: false, Name: "KF"}
		default:
			return gvar(pick(r, boolVars))
		}
	}
	if d <= 0 || r.Intn(5) == 0 {
		return leaf()
	}
	n := 2 + r.Intn(3)
	ch := make([]*GT, n)
	for i := range ch {
		if r.Intn(3) == 0 {
			ch[i] = leaf()
		} else {
			ch[i] = logicNest(r, d-1)
		}
	}
	switch r.Intn(10) {
	case 0, 1, 2:
		return gop(pick(r, andNames), ch...)
	case 3, 4, 5:
		return gop(pick(r, orNames), ch...)
	case 6, 7:
		return gop("xor", ch...)
	case 8:
		return gop(pick(r, notNames), ch[0])
	default:
		return gop(pick(r, eqNames), ch[0], ch[1])
	}
}

// a constant of the configuration, written by its name
func gvar2c(name string) *GT { return &GT{Kind: "var", Name: name} }
