package main

import (
	"encoding/json"
	"fmt"
	"os"
	"os/exec"
	"path/filepath"
	"strings"
)

// runRaceChild re-executes the harness built with -race for the runtime part of a property and merges what it found.
func runRaceChild(c *RunCtx, prop string) []*Batch {
	bin := filepath.Join(buildDir, "bin", "check_race")
	if _, err := os.Stat(bin); err != nil {
		fmt.Println("INFRASTRUCTURE: race-enabled harness missing:", bin)
		os.Exit(2)
	}
	out := filepath.Join(buildDir, "race_"+prop+".json")
	os.Remove(out)
	cmd := exec.Command(bin, "--race-child", prop, c.Tier, fmt.Sprint(c.Seed), out)
	cmd.Env = append(os.Environ(), "GORACE=halt_on_error=0 exitcode=0 log_path="+filepath.Join(buildDir, "race_"+prop+".log"))
	b, err := cmd.CombinedOutput()
	if err != nil {
		c.Direct = append(c.Direct, DirectViolation{What: "the race-enabled run crashed: " + tail(string(b), 800), Sig: "race-child-crash", Sample: prop})
	}
	var res struct {
		Direct  []DirectViolation
		Evals   int
		Dist    int
		Samples []interface{}
		Hist    map[string]int
	}
	if jb, e := os.ReadFile(out); e == nil {
		json.Unmarshal(jb, &res)
	}
	c.Direct = append(c.Direct, res.Direct...)
	c.ExploreEvals += res.Evals
	c.ExploreDistinct += res.Dist
	c.ExploreSamples = append(c.ExploreSamples, res.Samples...)
	for k, v := range res.Hist {
		c.ExploreHist[k] += v
	}
	// race reports
	logs, _ := filepath.Glob(filepath.Join(buildDir, "race_"+prop+".log*"))
	races := 0
	var first string
	for _, l := range logs {
		lb, _ := os.ReadFile(l)
		n := strings.Count(string(lb), "WARNING: DATA RACE")
		races += n
		if n > 0 && first == "" {
			first = clip(string(lb), 1500)
		}
		os.Remove(l)
	}
	c.Extra["data_races_reported"] = races
	if races > 0 {
		c.Direct = append(c.Direct, DirectViolation{What: fmt.Sprintf("the race detector reported %d data race(s)", races), Sig: "data-race", Sample: first})
	}
	return nil
}

func raceChildMain(args []string) {
	prop, tier, out := args[0], args[1], args[3]
	var seed int64
	fmt.Sscan(args[2], &seed)
	c := &RunCtx{Prop: prop, Tier: tier, Seed: seed, R: NewRand(uint64(seed) ^ hashStr(prop)), Thor: tier == "thorough", Extra: map[string]interface{}{}, ExploreHist: map[string]int{}}
	props[prop].Gen(c)
	writeJSON(out, map[string]interface{}{"Direct": c.Direct, "Evals": c.ExploreEvals, "Dist": c.ExploreDistinct, "Samples": c.ExploreSamples, "Hist": c.ExploreHist})
}
