package main

import (
	"fmt"
	"strings"

	eval "github.com/onheap/eval"
)

// exactTree builds a tree with exactly n nodes (n >= 1) out of c_sum nodes with at most `w` children and constants.
func exactTree(n, w int) *GT {
	if n == 1 {
		return gconst(int64(1))
	}
	// a c_sum node with k children carrying n-1 nodes in total
	rest := n - 1
	k := w
	if rest < k {
		k = rest
	}
	t := gop("c_sum")
	base, extra := rest/k, rest%k
	for i := 0; i < k; i++ {
		sz := base
		if i < extra {
			sz++
		}
		t.Ch = append(t.Ch, exactTree(sz, w))
	}
	return t
}

func nested(op string, groups []int, leaf func(i int) *GT) *GT {
	t := gop(op)
	k := 0
	for _, g := range groups {
		inner := gop(op)
		for i := 0; i < g; i++ {
			inner.Ch = append(inner.Ch, leaf(k))
			k++
		}
		t.Ch = append(t.Ch, inner)
	}
	return t
}

func init() {
	register(&PropDef{
		ID:   "C09",
		Rule: "boundary programs built by construction: operand counts 126/127/128 direct and reached only by flattening nested and/or (64+64, 100+100, 127+1, 3x127 ...), node counts 32766/32767/32768 (and 16383/16384 real nodes with event nodes, with and without fast operators), operand-stack depths 6..18 with every node kind at the deepest slot, x optimisation subsets x {plain, ReportEvent, Debug}; Go's accept/reject decision (and which limit), layout, Eval/TryEval results are compared with the model; ONE context evaluating programs of stack depths 2..20 one after the other; non-trivial = every case; distinct = distinct (source shape, config)",
		Assumptions: []string{"huge programs are compared on the capacity decision and the evaluation result only (their layout is not exported)"},
		Behav:       []int{2, 5, 7}, Fidelity: []int{3, 4, 6, 8, 1, 10, 15}, CodeText: evalCodeText,
		Gen: genC09,
	})
}

// sharedCtxDepths: ONE context evaluates programs of different operand-stack depths one after the other (shallow first,
// then 9..20 deep): every accepted program returns the reference result, whatever the context evaluated before.
func sharedCtxDepths(c *RunCtx) {
	conf := eval.NewConfig(eval.RegVarAndOp(map[string]interface{}{"a": int64(1)}), eval.Optimizations(false))
	ctx := eval.NewCtxFromVars(conf, map[string]interface{}{"a": int64(1)})
	chain := func(d int) string {
		s := "a"
		for i := 0; i < d; i++ {
			s = "(+ a " + s + ")"
		}
		return s
	}
	for _, try := range []bool{false, true} {
		for _, d := range []int{2, 7, 8, 9, 12, 15, 16, 17, 20, 3, 16, 9} {
			src := chain(d)
			e, err, pan := compileSafe(conf, src)
			if err != nil || pan != nil || e == nil {
				continue
			}
			var got string
			guarded(map[string]interface{}{"call": "Eval with a context used before", "source": src}, func() {
				defer func() {
					if p := recover(); p != nil {
						got = fmt.Sprintf("panic: %v", p)
					}
				}()
				var v eval.Value
				var er error
				if try {
					v, er = e.TryEval(ctx)
				} else {
					v, er = e.Eval(ctx)
				}
				got = fmt.Sprintf("%v / %v", v, er)
			})
			c.ExploreEvals++
			if want := fmt.Sprintf("%d / <nil>", d+1); got != want {
				c.Direct = append(c.Direct, DirectViolation{What: "a program accepted by Compile does not return the reference result when its context has evaluated other programs before", Sig: "c09-shared-ctx",
					Sample: map[string]interface{}{"depth": d, "tryeval": try, "got": got, "want": want}})
				return
			}
		}
	}
}

func genC09(c *RunCtx) []*Batch {
	r := c.R
	b := evalBatch("C09", "limits")
	sharedCtxDepths(c)
	ones := func(i int) *GT { return gconst(true) }
	vars := func(i int) *GT { return gvar(boolVars[i%4]) }
	// operand counts, direct
	for _, n := range []int{2, 126, 127, 128, 129, 200, 255, 256} {
		for _, mask := range []int{0, 15, 2} {
			ch := make([]*GT, n)
			for i := range ch {
				ch[i] = gconst(int64(i % 3))
			}
			addEval(c, b, &EvalSpec{Tree: gop("+", ch...), RC: &RunCfg{Opts: optSubset(mask, false)}, Bind: randBinding(r), DoEval: true, Tags: []string{fmt.Sprintf("operands:%d", n)}})
			chb := make([]*GT, n)
			for i := range chb {
				chb[i] = vars(i)
			}
			addEval(c, b, &EvalSpec{Tree: gop("and", chb...), RC: &RunCfg{Opts: optSubset(mask, false)}, Bind: allTrue(), DoEval: true, DoTry: true, Tags: []string{fmt.Sprintf("operands:%d", n)}})
		}
	}
	// operand counts reached by flattening
	for _, gs := range [][]int{{64, 63}, {64, 64}, {100, 100}, {127, 1}, {126, 1}, {127, 127}, {127, 127, 127}, {50, 50, 27}, {50, 50, 28}, {2, 126}, {2, 125}} {
		for _, op := range []string{"and", "or", "&&", "|"} {
			for _, mask := range []int{0, 2, 15, 13, 3} {
				for _, leaf := range []func(int) *GT{ones, vars} {
					bind := allTrue()
					if op == "or" || op == "|" {
						bind = allFalse()
					}
					t := nested(op, gs, leaf)
					if op == "or" || op == "|" {
						t = nested(op, gs, func(i int) *GT {
							if leaf(0).Kind == "const" {
								return gconst(false)
							}
							return vars(i)
						})
					}
					addEval(c, b, &EvalSpec{Tree: t, RC: &RunCfg{Opts: optSubset(mask, false)}, Bind: bind, DoEval: true, DoTry: true, Tags: []string{"flatten:" + fmt.Sprint(gs)}})
				}
			}
		}
	}
	// stack depth classes
	for _, t := range boundaryTrees() {
		for _, mask := range []int{0, 15} {
			for _, ev := range []int{0, 1, 2} {
				rc := &RunCfg{Opts: optSubset(mask, false), Events: ev == 1, Debug: ev == 2}
				addEval(c, b, &EvalSpec{Tree: t, RC: rc, Bind: randBinding(r), DoEval: true, DoTry: ev == 0, Tags: []string{"depth-class"}})
			}
		}
	}
	// node counts (capacity decision and result only)
	huge := evalBatch("C09", "limits_nodes")
	huge.ChkFn = "chk_capacity"
	huge.CaseType = "(config * tree * N * option mres)"
	huge.OutFn = ""
	huge.Shard = 1
	b.Shard = 100
	counts := []int{32766, 32767, 32768}
	evCounts := []int{16383, 16384, 16385}
	if c.Thor {
		counts = append(counts, 32700, 33000, 40000)
		evCounts = append(evCounts, 16000, 17000)
	}
	for _, n := range counts {
		for _, w := range []int{127, 100} {
			addCapacity(c, huge, exactTree(n, w), &RunCfg{Opts: optSubset(0, false)}, fmt.Sprintf("nodes:%d", n))
		}
	}
	for _, n := range evCounts {
		for _, ev := range []int{1, 2} {
			addCapacity(c, huge, exactTree(n, 127), &RunCfg{Opts: optSubset(0, false), Events: ev == 1, Debug: ev == 2}, fmt.Sprintf("event-nodes:%d", n))
			// with fast operators (each removes two event nodes): (+ 1 1) leaves
			addCapacity(c, huge, exactTree(n, 2), &RunCfg{Opts: optSubset(4, false), Events: ev == 1, Debug: ev == 2}, fmt.Sprintf("event-nodes-fast:%d", n))
		}
	}
	return []*Batch{b, huge}
}

func allTrue() *Binding {
	b := &Binding{Vals: map[string]interface{}{}}
	for _, n := range boolVars {
		b.Vals[n] = true
	}
	return b
}
func allFalse() *Binding {
	b := &Binding{Vals: map[string]interface{}{}}
	for _, n := range boolVars {
		b.Vals[n] = false
	}
	return b
}

// capacity case: Go's Compile decision and Eval value vs the model's decision and `sem`
func addCapacity(c *RunCtx, b *Batch, t *GT, rc *RunCfg, tag string) {
	built := rc.Build()
	src := t.Src()
	e, err, pan := compileSafe(built.Conf, src)
	if pan != nil {
		c.Direct = append(c.Direct, DirectViolation{What: "Compile panicked instead of rejecting or accepting the program", Sig: "compile-panic:" + clip(fmt.Sprint(pan), 60),
			Sample: map[string]interface{}{"nodes": t.size(), "config": rc.Describe(), "panic": fmt.Sprint(pan)}})
		return
	}
	code := cerrCode(err)
	res := "None"
	goRes := ""
	if err == nil {
		f := &RecFetcher{Vals: map[string]interface{}{}}
		o := runExpr(e, built, rc, f, false)
		res = "Some (" + o.outcomeCoq() + ")"
		goRes = o.String()
	} else {
		goRes = "rejected: " + clip(err.Error(), 80)
	}
	term := fmt.Sprintf("(%s, %s, %d%%N, %s)", rc.Coq(), t.Coq(), code, res)
	b.Cases = append(b.Cases, Case{Term: term, Key: tag + rc.Describe() + fmt.Sprint(t.size(), len(t.Ch)), Nontrivial: true, Tags: []string{tag},
		Sample: map[string]interface{}{"nodes": t.size(), "root_children": len(t.Ch), "config": rc.Describe(), "go": goRes}})
}

// ---------- C06: totality on arbitrary source text ----------

var fuzzAlphabet = []string{"(", ")", "[", "]", ",", ";", "\"", " ", "\n", "\t", "!", "=", "<", ">", "&", "|", "+", "-", "*", "/", "%", "a", "b0", "i1", "x.y", "1", "-7", "if", "and", "or", "not", "c_now", "true", "é", "λ", " ", " ", ".", "_", "9999999999999999999999", "\\", "in", "overlap", "between", "eq"}

func mutateSource(r *Rand, s string) string {
	toks := strings.Fields(strings.NewReplacer("(", " ( ", ")", " ) ", "[", " [ ", "]", " ] ", ",", " , ").Replace(s))
	if len(toks) == 0 {
		return s
	}
	for k := 0; k < 1+r.Intn(3); k++ {
		i := r.Intn(len(toks))
		switch r.Intn(6) {
		case 0:
			toks = append(toks[:i], toks[i+1:]...)
		case 1:
			toks = append(toks[:i+1], append([]string{toks[i]}, toks[i+1:]...)...)
		case 2:
			j := r.Intn(len(toks))
			toks[i], toks[j] = toks[j], toks[i]
		case 3:
			toks = toks[:i]
		case 4:
			toks[i] = fuzzAlphabet[r.Intn(len(fuzzAlphabet))]
		default:
			toks = append(toks[:i], append([]string{fuzzAlphabet[r.Intn(len(fuzzAlphabet))]}, toks[i:]...)...)
		}
		if len(toks) == 0 {
			break
		}
	}
	return strings.Join(toks, " ")
}

func infixOf(t *GT) string {
	switch t.Kind {
	case "const":
		switch x := t.Val.(type) {
		case []int64:
			p := make([]string, len(x))
			for i, z := range x {
				p[i] = fmt.Sprint(z)
			}
			return "[" + strings.Join(p, ", ") + "]"
		case []string:
			p := make([]string, len(x))
			for i, z := range x {
				p[i] = `"` + z + `"`
			}
			return "[" + strings.Join(p, ", ") + "]"
		}
		return srcValue(t.Val)
	case "var":
		return t.Name
	case "if":
		return "if(" + infixOf(t.Ch[0]) + ", " + infixOf(t.Ch[1]) + ", " + infixOf(t.Ch[2]) + ")"
	}
	bin := map[string]bool{"*": true, "/": true, "%": true, "+": true, "-": true, "=": true, "==": true, "!=": true, "<": true, ">": true, "<=": true, ">=": true, "&": true, "&&": true, "|": true, "||": true}
	if bin[t.Name] && len(t.Ch) == 2 {
		return "(" + infixOf(t.Ch[0]) + " " + t.Name + " " + infixOf(t.Ch[1]) + ")"
	}
	if t.Name == "!" && len(t.Ch) == 1 {
		return "!(" + infixOf(t.Ch[0]) + ")"
	}
	p := make([]string, len(t.Ch))
	for i, c := range t.Ch {
		p[i] = infixOf(c)
	}
	return t.Name + "(" + strings.Join(p, ", ") + ")"
}

func init() {
	register(&PropDef{
		ID:   "C06",
		Rule: "source strings: valid prefix and infix renderings of random trees, token-level mutations of them (delete/duplicate/swap/truncate/replace/insert), every prefix of valid sources, random strings over a delimiter-rich alphabet with non-ASCII letters and Unicode spaces, empty/blank/comment-only sources; both notations x option subsets x event modes; Compile, and on success Eval, TryEval, Dump, DumpTable under a random binding (incl. list-typed and nil values), each under recover(); on success also the library's own contexts (NewCtxFromVars over key maps with a far or negative key) with Eval/EvalBool/TryEvalBool; a case is non-trivial when the source is not a valid rendering (mutated, truncated or random); distinct = distinct (source, notation)",
		Assumptions: []string{"panics are observed with recover(); hangs by the check's overall timeout", "fetchers and operators are the harness's well-behaved ones"},
		Gen: genC06,
	})
}

func genC06(c *RunCtx) []*Batch {
	r := c.R
	n := c.N(14000, 400000)
	hist := map[string]int{}
	var samples []string
	seen := map[string]bool{}
	distinct := 0
	evals := 0
	try := func(src string, infix bool, kind string) {
		evals++
		key := fmt.Sprint(infix) + src
		if kind != "valid" && !seen[key] {
			seen[key] = true
			distinct++
		}
		rc := &RunCfg{Opts: optSubset(r.Intn(16), false), Events: r.Intn(8) == 0, Undefined: r.Intn(3) == 0,
			VarNames: append(append(append([]string{}, boolVars...), intVars...), "li0", "ls0", "s0", "s1", "f0", "ss0", "ss1", "si0")}
		built := rc.Build()
		if infix {
			built.Conf.CompileOptions[eval.InfixNotation] = true
		}
		e, err, pan := compileSafe(built.Conf, src)
		rep := func(what string, p interface{}) {
			sig := what + ":" + clip(fmt.Sprint(p), 50)
			c.Direct = append(c.Direct, DirectViolation{What: what + " panicked: " + fmt.Sprint(p), Sig: sig,
				Sample: map[string]interface{}{"source": src, "infix": infix, "config": rc.Describe()}})
		}
		switch {
		case pan != nil:
			hist["compile:panic"]++
			rep("Compile", pan)
			return
		case err != nil:
			hist["compile:error:"+kind]++
			if e != nil {
				c.Direct = append(c.Direct, DirectViolation{What: "Compile returned both a program and an error", Sig: "both", Sample: src})
			}
			return
		case e == nil:
			c.Direct = append(c.Direct, DirectViolation{What: "Compile returned neither a program nor an error", Sig: "both-nil", Sample: src})
			return
		}
		hist["compile:ok:"+kind]++
		bd := randBinding(r)
		if r.Intn(4) == 0 {
			bd.Vals["b0"] = nil
			bd.Vals["i0"] = []int64{1}
		}
		// sets are legitimate values (the collection operand of `in`): wherever they end up, the answer is a value or an error
		bd.Vals["ss0"], bd.Vals["ss1"] = map[string]struct{}{"a": {}, "b": {}}, map[string]struct{}{"a": {}}
		bd.Vals["si0"] = map[int64]struct{}{1: {}, 2: {}}
		if r.Intn(6) == 0 {
			bd.Vals["s0"], bd.Vals["s1"] = bd.Vals["ss0"], bd.Vals["ss1"]
			bd.Vals["li0"] = bd.Vals["si0"]
		}
		if kind == "large" {
			// a binding that does not short-circuit: every operand is evaluated
			v := strings.Contains(src, "&")
			for _, nme := range boolVars {
				bd.Vals[nme] = v
			}
		}
		for _, tr := range []bool{false, true} {
			f := &RecFetcher{Vals: bd.Vals}
			if tr {
				f.Avail = randAvail(r, bd)
				f.Lazy = true
			}
			o := runExpr(e, built, rc, f, tr)
			if o.Panic != nil {
				name := "Eval"
				if tr {
					name = "TryEval"
				}
				rep(name, o.Panic)
			}
			// LOOP positions strictly increase
			last := int16(-1)
			for _, ev := range o.Events {
				if ev.Kind == "loop" {
					if ev.Pos <= last {
						c.Direct = append(c.Direct, DirectViolation{What: "LOOP events do not report strictly increasing positions", Sig: "loop-order", Sample: src})
						break
					}
					last = ev.Pos
				}
			}
		}
		// the library's own binding constructors on key maps of every shape (dense, with a far key the caller chose,
		// undefined-variable mode): a context or an error, then a result or an error
		if evals%3 == 0 && !rc.Events && !rc.Debug { // (an event-mode program blocks on its channel without a consumer)
			kc := eval.CopyConfig(built.Conf)
			vals := map[string]interface{}{}
			for n := range kc.VariableKeyMap {
				if v, ok := bd.Vals[n]; ok {
					if _, isErr := v.(*UserErr); !isErr {
						vals[n] = v
					}
				}
			}
			switch r.Intn(3) {
			case 0:
				kc.VariableKeyMap["zfar"], vals["zfar"] = eval.VariableKey(40+r.Intn(210)), int64(1)
			case 1:
				kc.VariableKeyMap["zneg"], vals["zneg"] = eval.VariableKey(-3), int64(1)
			}
			guarded(map[string]interface{}{"call": "NewCtxFromVars / Eval / EvalBool / TryEvalBool", "source": src, "key_map": fmt.Sprint(kc.VariableKeyMap)}, func() {
				defer func() {
					if p := recover(); p != nil {
						rep("NewCtxFromVars+Eval (key map "+fmt.Sprint(kc.VariableKeyMap)+")", p)
					}
				}()
				cx := eval.NewCtxFromVars(kc, vals)
				_, _ = e.Eval(cx)
				_, _ = e.EvalBool(cx)
				_, _ = e.TryEvalBool(cx)
			})
		}
		guarded(map[string]interface{}{"call": "Dump/DumpTable", "source": src}, func() {
			defer func() {
				if p := recover(); p != nil {
					rep("Dump/DumpTable", p)
				}
			}()
			_ = eval.Dump(e)
			_ = eval.DumpTable(e, false)
			_ = eval.DumpTable(e, true)
		})
		if len(samples) < 10 && kind != "valid" {
			samples = append(samples, clip(src, 120))
		}
	}
	for _, s := range []string{"", " ", "\n\t", ";", "; only a comment", ";;;; optimize:false", "()", "(", ")", "(())", "(and)", "(if)", "(if true 1)", "\"", "(= \"a", "(+ 1 2", "+ 1 2)", "((+ 1 2))", "(1 2 3)", "(+ (1 2) 3)", "(= (1 2) (1 2))", "(in 1 ())", "(overlap () ())", "(not)", "(nosuchop 1)", "(+ 1 unknownvar)", "(let x 1)", "(and true (or))", "(if 5 1 2)",
		"(= ss0 ss1)", "(= ss0 ss0)", "(!= ss0 ss1)", "(eq ss0 ss1 ss0)", "(ne si0 si0)", "(= ss0 1)", "(in \"a\" ss0)", "(in 1 si0)", "(in ss0 ss1)", "(overlap ss0 ss1)", "(and (= si0 si0) true)", "(if (= ss0 ss1) 1 2)", "(+ ss0 1)", "(not ss0)", "(between si0 1 2)"} {
		try(s, false, "handwritten")
	}
	// operand-stack depths around the 8/16 allocation classes with every kind of node (incl. a zero-operand call) deepest
	for _, bt := range boundaryTrees() {
		try(bt.Src(), false, "boundary-depth")
	}
	for _, s := range []string{"", " ", ";", "a +", "* a", "+", "a * !b", "[", "1 + [", "]", "1 + ", "(1", "1)", "f(", "f(1,", "f(,)", "if(true,1)", "if(true,1,2,3)", "!!true", "!", "1 2", "a b", "[1, \"a\"]", "[1 2]", "c_now()", "c_sum(1,)", ",", "(,)", "1 + (2", "!(1", "a && ", "|| a", "a == == b",
		"1 2 add(+)", "a b mod(+ * 3)", "1 + 2 3 if(*)", "a b max(&&) == 1", "1 2 3 c_sum(+ +)", "a c_now() b (*)", "x y z if(,)", "1 2 (+)", "(+) 1 2", "a ! b c_id(-)"} {
		try(s, true, "handwritten")
	}
	// token soup in infix notation: operands, operators, function names, parentheses and commas in any order
	soup := []string{"1", "2", "a", "b0", "i1", "+", "-", "*", "&&", "||", "==", "!", "(", ")", ",", "add", "mod", "if", "c_sum", "c_now", "max", "[", "]", "\"s\""}
	for k := 0; k < c.N(1500, 60000); k++ {
		n := 1 + r.Intn(9)
		parts := make([]string, n)
		for i := range parts {
			parts[i] = soup[r.Intn(len(soup))]
		}
		try(strings.Join(parts, " "), true, "token-soup")
		if k%3 == 0 {
			try(strings.Join(parts, " "), false, "token-soup")
		}
	}
	// every built-in name with 0..3 operands of every kind of literal, bare, under an operator and in infix call syntax:
	// wrong counts and types must be errors at compile time (constant folding runs them) or at evaluation, never panics
	operandSets := [][]string{{}, {"1"}, {"\"a\""}, {"true"}, {"(1 2)"}, {"i1"}, {"1", "2"}, {"\"2021-01-02\"", "\"2006-01-02\""}, {"s0", "1"},
		{"1", "\"x\""}, {"(1 2)", "(3)"}, {"()", "(1 2)"}, {"1", "2", "3"}, {"\"1.2.3\"", "2", "3"}, {"i1", "b0", "s0"}}
	for _, name := range eval.VerifBuiltinNames() {
		for _, ops := range operandSets {
			call := "(" + strings.TrimSpace(name+" "+strings.Join(ops, " ")) + ")"
			try(call, false, "builtin-arity")
			try("(= "+call+" 0)", false, "builtin-arity")
			if len(ops) <= 1 || r.Intn(3) == 0 {
				iops := make([]string, len(ops))
				for i, o := range ops {
					iops[i] = strings.NewReplacer("(", "[", ")", "]").Replace(o)
				}
				try(name+"("+strings.Join(iops, ", ")+")", true, "builtin-arity")
			}
		}
	}
	// large structured inputs: long operator chains (flattened by the optimiser), wide and deep nesting
	for _, cnt := range []int{126, 127, 128, 129, 200, 255, 256, 257, 400} {
		for _, op := range []string{"&&", "||", "+", "&", "|"} {
			leaf := "b0"
			if op == "+" {
				leaf = "i1"
			}
			parts := make([]string, cnt)
			for i := range parts {
				parts[i] = leaf
			}
			try(strings.Join(parts, " "+op+" "), true, "large")
			half := cnt / 2
			g := func(k int) string { return "(" + op + " " + strings.Repeat(leaf+" ", k) + ")" }
			try("("+op+" "+g(half)+" "+g(cnt-half)+")", false, "large")
			try("("+op+" "+strings.Repeat(leaf+" ", cnt)+")", false, "large")
		}
		try(strings.Repeat("(not ", cnt)+"b0"+strings.Repeat(")", cnt), false, "large")
		try(strings.Repeat("(", cnt)+"b0"+strings.Repeat(")", cnt), true, "large")
		try("(in 1 ("+strings.Repeat("1 ", cnt)+"))", false, "large")
	}
	for k := 0; k < n; k++ {
		gc := randGenCfg(r)
		gc.Wide = 0
		gc.MaxDepth = 1 + r.Intn(3)
		t := randTree(r, gc)
		infix := r.Intn(3) == 0
		var src string
		if infix {
			src = infixOf(t)
		} else {
			src = t.Src()
		}
		switch r.Intn(10) {
		case 0:
			try(src, infix, "valid")
		case 1, 2:
			rs := []rune(src)
			try(string(rs[:r.Intn(len(rs)+1)]), infix, "prefix")
		case 3:
			var sb strings.Builder
			for i := 0; i < r.Intn(12); i++ {
				sb.WriteString(fuzzAlphabet[r.Intn(len(fuzzAlphabet))])
				if r.Bool() {
					sb.WriteString(" ")
				}
			}
			try(sb.String(), infix, "random")
		case 4:
			try(src, !infix, "wrong-notation")
		default:
			try(mutateSource(r, src), infix, "mutated")
		}
	}
	c.Extra["exploration"] = map[string]interface{}{"evaluations": evals, "distinct_nontrivial": distinct, "outcomes": hist, "samples": samples}
	c.ExploreEvals, c.ExploreDistinct = evals, distinct
	for _, s := range samples {
		c.ExploreSamples = append(c.ExploreSamples, map[string]interface{}{"source": s})
	}
	for k, v := range hist {
		c.ExploreHist[k] = v
	}
	return nil
}
