module verif/harness

go 1.18

require github.com/onheap/eval v0.0.0

replace github.com/onheap/eval => /repo
