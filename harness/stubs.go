package main

import (
	"fmt"
	"strings"
)

// expression-level cases for the operator properties: the same operators reached through Compile (constant folding,
// fast marking, any peephole the optimiser applies to them) and Eval, compared with the model like every other
// evaluation case (codes of chk_eval)

func opsEvalBind(r *Rand) *Binding {
	bd := randBinding(r)
	bd.Vals["s0"], bd.Vals["s1"] = []string{"a", "b", "1", ""}[r.Intn(4)], []string{"a", "x", "7"}[r.Intn(3)]
	bd.Vals["i0"], bd.Vals["i1"] = int64(r.Intn(4)), []int64{0, 1, 7, -1, 9223372036854775807, -9223372036854775808}[r.Intn(6)]
	return bd
}

func evalBatchLists(c *RunCtx) *Batch {
	r := c.R
	b := evalBatch("C17", "eval_lists")
	probe := func() *GT {
		switch r.Intn(7) {
		case 0:
			g := gconst(int64(r.Intn(4)))
			if r.Intn(3) == 0 {
				g = gconst(int64(r.Intn(40)) - 10)
				g.Name = spellInt(r, g.Val.(int64))
			}
			return g
		case 1:
			return gconst([]string{"a", "b", "1", ""}[r.Intn(4)])
		case 2:
			return gconst(r.Bool())
		case 3, 4:
			return gvar(pick(r, []string{"s0", "s1"}))
		default:
			return gvar(pick(r, []string{"i0", "i1"}))
		}
	}
	list := func() *GT {
		n := []int{0, 1, 1, 1, 2, 3, 5}[r.Intn(7)]
		if r.Intn(6) == 0 {
			// a list constant of the configuration, written by its name
			if r.Bool() {
				return &GT{Kind: "const", Val: listConsts["KLS"], Name: "KLS"}
			}
			return &GT{Kind: "const", Val: listConsts["KLI"], Name: "KLI"}
		}
		switch r.Intn(5) {
		case 0:
			return gvar(pick(r, []string{"li0", "ls0"}))
		case 1, 2:
			l := make([]string, n)
			for i := range l {
				l[i] = []string{"a", "b", "1", "", "7"}[r.Intn(5)]
			}
			return gconst(l)
		default:
			if n == 0 {
				return gconst([]string{})
			}
			l := make([]int64, n)
			for i := range l {
				l[i] = int64(r.Intn(4))
				if r.Intn(4) == 0 {
					l[i] = int64(r.Intn(40)) - 10
				}
			}
			g := gconst(l)
			if r.Intn(3) == 0 {
				// the same list written with other spellings of its integers (zero-padded, explicit sign): decimal all the same
				sp := make([]string, n)
				for i, v := range l {
					sp[i] = spellInt(r, v)
				}
				g.Name = "(" + strings.Join(sp, " ") + ")"
			}
			return g
		}
	}
	n := c.N(500, 20000)
	for k := 0; k < n; k++ {
		var t *GT
		switch r.Intn(6) {
		case 0:
			t = gop("overlap", list(), list())
		case 1:
			t = gif(gop("in", probe(), list()), gconst(int64(1)), gconst(int64(2)))
		case 2:
			t = gop(pick(r, andNames), gop("in", probe(), list()), gvar(pick(r, boolVars)))
		default:
			t = gop("in", probe(), list())
		}
		// a list written with other spellings: probe it with one of its own elements (in), or meet it with a list that
		// shares one (overlap)
		if l := t.Ch[len(t.Ch)-1]; t.Kind == "op" && l.Kind == "const" && l.Name != "" && r.Intn(3) != 0 {
			if il, ok := l.Val.([]int64); ok && len(il) > 0 {
				el := il[r.Intn(len(il))]
				if t.Name == "in" {
					t.Ch[0] = gconst(el)
				} else if t.Name == "overlap" {
					t.Ch[0] = gconst([]int64{el + 100, el})
				}
			}
		}
		mask := []int{15, 0, r.Intn(16)}[r.Intn(3)]
		rc := &RunCfg{Opts: optSubset(mask, r.Bool()), Consts: listConsts}
		addEval(c, b, &EvalSpec{Tree: t, RC: rc, Bind: opsEvalBind(r), DoEval: true, Tags: []string{fmt.Sprintf("subset:%d", mask), "eval-level"}})
	}
	return b
}

var listConsts = map[string]interface{}{"KLS": []string{"a", "b", "7", ""}, "KLI": []int64{0, 1, 2, 3}}

func evalBatchOps(c *RunCtx, prop string, names []string) *Batch {
	r := c.R
	b := evalBatch(prop, "eval_ops")
	operand := func() *GT {
		switch r.Intn(9) {
		case 0:
			return gconst(r.Bool())
		case 1:
			return gconst([]string{"", "x", "0"}[r.Intn(3)])
		case 2, 3:
			return gvar(pick(r, []string{"i0", "i1"}))
		case 4:
			return gvar(pick(r, boolVars))
		case 5:
			return gconst([]int64{0, 1, -1, 9223372036854775807, -9223372036854775808}[r.Intn(5)])
		default:
			return gconst(int64(r.Intn(5)) - 1)
		}
	}
	n := c.N(700, 30000)
	for k := 0; k < n; k++ {
		name := names[r.Intn(len(names))]
		cnt := []int{1, 2, 2, 2, 3, 3, 4, 5}[r.Intn(8)]
		ch := make([]*GT, cnt)
		logic := map[string]bool{"and": true, "or": true, "xor": true, "not": true, "&": true, "|": true, "!": true, "&&": true, "||": true}[name]
		for i := range ch {
			if logic && r.Intn(6) != 0 {
				if r.Bool() {
					ch[i] = gconst(r.Bool())
				} else {
					ch[i] = gvar(pick(r, boolVars))
				}
			} else {
				ch[i] = operand()
			}
		}
		t := gop(name, ch...)
		if r.Intn(4) == 0 {
			t = gop("c_id", t)
		}
		if r.Intn(5) == 0 { // logic operators nested directly in one another: each must stay its own fold
			t = logicNest(r, 2+r.Intn(2))
			if t.Kind != "op" {
				t = gop("c_id", t)
			}
		}
		if r.Intn(8) == 0 {
			// a negated comparison of EQUAL operands: (not (gt a a)) is (le a a), not (lt a a) - whatever the optimiser does
			x := []*GT{gvar("i0"), gvar("i1"), gconst(int64(7)), gconst(int64(-9223372036854775808))}[r.Intn(4)]
			y := &GT{Kind: x.Kind, Val: x.Val, Name: x.Name}
			t = gop(pick(r, notNames), gop(pick(r, append(append([]string{}, cmpNames...), eqNames...)), x, y))
		}
		mask := []int{15, 0, r.Intn(16)}[r.Intn(3)]
		rc := &RunCfg{Opts: optSubset(mask, r.Bool())}
		addEval(c, b, &EvalSpec{Tree: t, RC: rc, Bind: opsEvalBind(r), DoEval: true, Tags: []string{fmt.Sprintf("subset:%d", mask), "eval-level"}})
	}
	return b
}

// spellInt: a decimal spelling of v the lexer accepts: plain, zero-padded, with an explicit sign
func spellInt(r *Rand, v int64) string {
	if v < 0 {
		switch r.Intn(3) {
		case 0:
			return fmt.Sprintf("%d", v)
		case 1:
			return fmt.Sprintf("-0%d", -v)
		default:
			return fmt.Sprintf("-00%d", -v)
		}
	}
	switch r.Intn(4) {
	case 0:
		return fmt.Sprintf("%d", v)
	case 1:
		return fmt.Sprintf("0%d", v)
	case 2:
		return fmt.Sprintf("00%d", v)
	default:
		return fmt.Sprintf("+%d", v)
	}
}
