package main

func evalBatchOps(c *RunCtx, prop string, names []string) *Batch {
	return &Batch{Prop: prop, Name: "eval_ops"}
}
func evalBatchLists(c *RunCtx) *Batch { return &Batch{Prop: "C17", Name: "eval_lists"} }
