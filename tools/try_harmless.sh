#!/bin/bash
# usage: try_harmless.sh <patch-file> [prop ...] — apply a behaviour-preserving change to /repo, run the quick checks, undo.
# Prints one line per property: quiet | no-failing-input-found | ALARM (a violation with a claimed failing input = false alarm).
patch=$1; shift; props="$@"; [ -z "$props" ] && props=$(seq -f "C%02g" 1 20)
cd /repo && git status --short | grep -v '^??' && { echo "/repo not clean"; exit 2; }
git -C /repo apply "$patch" || { echo "patch does not apply"; exit 2; }
mkdir -p /verif/_build/harmless
tag=$(basename $(dirname $(dirname "$patch")))-$(basename $(dirname "$patch"))-$(basename "$patch" .diff)
for p in $props; do
  cp /verif/evidence/$p.json /verif/_build/evidence_$p.bak 2>/dev/null
  (cd /verif && ./run.sh $p quick > /verif/_build/harmless/$tag.$p.log 2>&1; echo "exit=$?" >> /verif/_build/harmless/$tag.$p.log)
  cp /verif/_build/evidence_$p.bak /verif/evidence/$p.json 2>/dev/null
  if grep -q "^VIOLATION" /verif/_build/harmless/$tag.$p.log; then
    if grep "^VIOLATION" /verif/_build/harmless/$tag.$p.log | grep -vq "no-failing-input-found"; then echo "$tag $p ALARM"; else echo "$tag $p no-failing-input-found"; fi
  elif grep -q "exit=0" /verif/_build/harmless/$tag.$p.log; then echo "$tag $p quiet"
  else echo "$tag $p INFRA $(tail -2 /verif/_build/harmless/$tag.$p.log | head -1)"; fi
done
git -C /repo checkout -- .
/verif/_build/bin/translator /repo /verif/_build/Tables.v.clean >/dev/null 2>&1 && { cmp -s /verif/_build/Tables.v.clean /verif/coq/Generated/Tables.v || cp /verif/_build/Tables.v.clean /verif/coq/Generated/Tables.v; }
