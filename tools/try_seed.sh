#!/bin/bash
# usage: try_seed.sh <seed-id> <property> [tier]   — apply /verif/seeded/<seed-id>/patch.diff to /repo, run the check, undo.
id=$1; prop=$2; tier=${3:-quick}
cd /repo && git status --short | grep -v '^??' && { echo "/repo not clean"; exit 2; }
git -C /repo apply /verif/seeded/$id/patch.diff || exit 2
cp /verif/evidence/$prop.json /verif/_build/evidence_$prop.bak 2>/dev/null
(cd /verif && ./run.sh $prop $tier > /verif/_build/seed_$id.$prop.log 2>&1; echo "exit=$?" >> /verif/_build/seed_$id.$prop.log)
git -C /repo checkout -- .
# the tables were regenerated from the patched tree: regenerate them from the clean one
/verif/_build/bin/translator /repo /verif/_build/Tables.v.clean >/dev/null 2>&1 && { cmp -s /verif/_build/Tables.v.clean /verif/coq/Generated/Tables.v || cp /verif/_build/Tables.v.clean /verif/coq/Generated/Tables.v; }
cp /verif/_build/evidence_$prop.bak /verif/evidence/$prop.json 2>/dev/null
grep -E "VIOLATION|KNOWN|exit=|INFRA" /verif/_build/seed_$id.$prop.log | head -5
