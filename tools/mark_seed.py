#!/usr/bin/env python3
"""mark_seed.py <seed-id> <text> — record in seeded/<id>/meta.json what was run and which check caught the change"""
import json,sys
p=f"/verif/seeded/{sys.argv[1]}/meta.json"; m=json.load(open(p)); m["detected_by"]=sys.argv[2]; json.dump(m,open(p,"w"),indent=1)
