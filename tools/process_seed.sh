#!/bin/bash
# usage: process_seed.sh <round-dir> <letter> <prop>...  — confirm each seed in its scratch worktree, then run its property's quick check against it
dir=$1; letter=$2; shift 2
for p in "$@"; do
  echo "== $p-$letter"
  /verif/tools/confirm_seed.sh $dir/$p $p-$letter $p 2>&1 | tail -1
  timeout 1500 /verif/tools/try_seed.sh $p-$letter $p 2>&1 | grep -v KNOWN | tail -2
done
