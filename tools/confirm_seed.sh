#!/bin/bash
# usage: confirm_seed.sh <worktree> <seed-id> <property>
# Confirms in the scratch worktree: suite passes with the change, demo fails with it and passes without it.
# On success copies patch.diff, the demo and meta.json to /verif/seeded/<seed-id>/.
export GOFLAGS=-mod=mod GOPROXY=off GOSUMDB=off GOTOOLCHAIN=local
wt=$1; id=$2; prop=$3
cd "$wt" || exit 2
[ -f seed_demo_test.go ] || { echo "no demo"; exit 2; }
git diff -- . ':!seed_demo_test.go' > /tmp/seed/$id.patch
[ -s /tmp/seed/$id.patch ] || { echo "empty patch"; exit 2; }
mv seed_demo_test.go /tmp/seed/$id.demo_test.go
echo "== suite with change (demo set aside)"; go test -vet=off -count=1 ./... > /tmp/seed/$id.suite.log 2>&1; s1=$?; tail -2 /tmp/seed/$id.suite.log
cp /tmp/seed/$id.demo_test.go seed_demo_test.go
echo "== demo with change (must fail)"; go test -vet=off -count=1 -run '^TestSeedDemo$' ./... > /tmp/seed/$id.demo1.log 2>&1; d1=$?; tail -3 /tmp/seed/$id.demo1.log
git apply -R /tmp/seed/$id.patch || { echo 'cannot revert patch'; exit 2; }
echo "== demo without change (must pass)"; go test -vet=off -count=1 -run '^TestSeedDemo$' ./... > /tmp/seed/$id.demo0.log 2>&1; d0=$?; tail -2 /tmp/seed/$id.demo0.log
git apply /tmp/seed/$id.patch || { echo 'cannot re-apply patch'; exit 2; }
echo "suite=$s1 demo_with=$d1 demo_without=$d0"
if [ $s1 -eq 0 ] && [ $d1 -ne 0 ] && [ $d0 -eq 0 ]; then
  mkdir -p /verif/seeded/$id
  cp /tmp/seed/$id.patch /verif/seeded/$id/patch.diff
  cp /tmp/seed/$id.demo_test.go /verif/seeded/$id/seed_demo_test.go
  python3 - "$wt" "$id" "$prop" <<'PY'
import json,sys
wt,id,prop=sys.argv[1:4]
try: m=json.load(open(wt+"/seed_meta.json"))
except Exception as e: m={"summary":"(agent meta missing)"}
out={"seed_id":id,"property":prop,"summary":m.get("summary"),"needs_to_manifest":m.get("needs_to_manifest"),
 "why_tests_pass":m.get("why_tests_pass"),
 "confirmed_by_me":["go test -vet=off -count=1 ./... with the change applied (demo set aside): pass",
   "go test -run ^TestSeedDemo$ with the change: FAIL", "go test -run ^TestSeedDemo$ without the change (git stash): pass"],
 "detected_by": None}
json.dump(out,open(f"/verif/seeded/{id}/meta.json","w"),indent=1)
PY
  echo CONFIRMED
else echo "NOT CONFIRMED"; exit 1; fi
