#!/bin/bash
# usage: regress_seeds.sh [seed-id ...] — apply every seeded change in turn, run its property's quick check, undo; prints one line per seed.
cd /verif
ids="$@"; [ -z "$ids" ] && ids=$(ls seeded)
for id in $ids; do
  prop=$(python3 -c "import json;print(json.load(open('/verif/seeded/$id/meta.json'))['property'])")
  out=$(timeout 1500 tools/try_seed.sh $id $prop 2>&1 | grep -c "VIOLATION")
  echo "$id $prop violations_lines=$out"
done
