#!/bin/bash
# usage: translator_regress.sh — run the translator over every behaviour-preserving change in /verif/harmless (each applied to a
# scratch copy of /repo under /tmp, removed afterwards) and compare the regenerated table with the clean tree's.
# SAME = identical Tables.v; FAIL = the translator reports that it does not recognise the source (tie reported broken,
# reference tables used); WRONG-TABLE = a different table was produced from behaviour-preserving code (a translator bug).
export GOFLAGS=-mod=mod GOPROXY=off GOSUMDB=off GOTOOLCHAIN=local
T=/verif/_build/bin/translator
[ -x $T ] || (cd /verif/translator && go build -o $T .) || exit 2
W=$(mktemp -d /tmp/trreg.XXXXXX)
cp -a /repo $W/r
git -C $W/r checkout -q -- .
$T $W/r $W/clean.v || { echo "translator fails on the clean tree"; rm -rf $W; exit 1; }
bad=0
for p in /verif/harmless/*.diff; do
  git -C $W/r checkout -q -- .
  git -C $W/r apply $p 2>/dev/null || { echo "$(basename $p) DOES-NOT-APPLY"; continue; }
  rm -f $W/t.v
  if $T $W/r $W/t.v >$W/out.txt 2>&1; then
    if cmp -s $W/t.v $W/clean.v; then echo "$(basename $p) SAME"; else echo "$(basename $p) WRONG-TABLE"; bad=1; fi
  else
    echo "$(basename $p) FAIL: $(head -1 $W/out.txt)"
  fi
done
rm -rf $W
exit $bad
