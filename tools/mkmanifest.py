#!/usr/bin/env python3
"""Writes /verif/MANIFEST.json from the table below (kept in one place so it stays valid)."""
import json, sys
TB = ("Trusted: Coq 8.16.1 kernel (vm_compute, no native_compute); the translator for the generated tables; the hand-written "
      "Gallina model is tied to /repo by the differential correspondence (harness + coqc vm_compute on identical inputs) and is "
      "otherwise modelled, not verified; axioms: none (Print Assumptions of each property theorem is captured in the evidence).")
claimed = {
 "C17": dict(tech="Coq proof (membership/intersection specs of list_in/list_overlap, scan = hash path) + differential correspondence of the operator model against the built-in operators",
             text="Kernel-checked theorems about the Gallina model of listIn/listOverlap for lists of every length (both paths of the 100-element switch, symmetry, empty-literal neutrality, type-mismatch errors); the model is run against the real operators on generated list pairs around the switch on every run.",
             ref="5 C17"),
 "C18": dict(tech="Coq proof (wrap-around folds, order laws, alias table computed from the regenerated operator table) + differential correspondence of every built-in name",
             text="Kernel-checked theorems over the regenerated operator table (every alias has the opcode of its named form) and over the operator model on all of int64/bool (folds with two's-complement wrap, zero divisors are errors, comparison laws, count/type errors); model run against the real operators on extremes and wrong types on every run.",
             ref="5 C18"),
 "C19": dict(tech="Coq proof (order preservation of the positional version encoding and of days_from_civil) + differential correspondence of version/time operators",
             text="Kernel-checked theorems: version encoding compares like the padded component lists and never wraps, invalid components/lengths rejected; civil date -> Unix seconds is strictly monotone; time.Parse itself is modelled for the strict layout fragment only (partial) and tied by the correspondence.",
             ref="5 C19"),
}
allp = [json.loads(l)["id"] for l in open("/verif/properties.jsonl")]
checks = []
for pid in allp:
    if pid not in claimed: continue
    c = claimed[pid]
    checks.append({
        "property_id": pid,
        "quick_cmd": f"./run.sh {pid} quick",
        "thorough_cmd": f"./run.sh {pid} thorough",
        "evidence_file": f"/verif/evidence/{pid}.json",
        "replay_cmd_template": "./run.sh --replay {path}",
        "engine": "coq-model+correspondence",
        "level_claimed": {"category": "proof", "text": c["text"], "design_ref": "DESIGN.md section " + c["ref"]},
        "level_note": c.get("note", TB),
        "technique": c["tech"],
    })
na = [{"property_id": p, "reason": "check not built yet in this round (model and theorems under construction; see DESIGN.md section 8)"} for p in allp if p not in claimed]
m = {
 "version": 1,
 "setup_cmd": "./setup.sh",
 "hooks": {"guard": "verif", "enable": "go build -tags verif (the harness module replaces github.com/onheap/eval by /repo)",
           "baseline_off_cmd": "cd /repo && go test -mod=mod -vet=off -count=1 -timeout 25m ./...",
           "source_commits": ["a04881c"], "add_only": True},
 "engines": [{"name": "coq-model+correspondence", "path": "/verif/coq, /verif/harness, /verif/translator",
              "serves_properties": sorted(claimed), "kind_free_text": "Coq 8.16 theorems about a Gallina model; tables regenerated from /repo by a go/ast translator; algorithms tied by running model (vm_compute) and implementation on the same generated inputs"}],
 "checks": checks,
 "not_applicable": na,
 "notes": "Every check regenerates coq/Generated/Tables.v from /repo, rebuilds the dependent .vo files (full build), re-checks the property file, rebuilds the harness against /repo with -tags verif and runs the correspondence. known_findings.json lists repaired defects (fixed:) and suppresses nothing.",
}
json.dump(m, open("/verif/MANIFEST.json", "w"), indent=1)
print("claimed", len(checks), "not_applicable", len(na))
