// translator: reads the table-shaped parts of /repo/*.go with go/parser and
// writes coq/Generated/Tables.v. It fails loudly on any shape it does not know.
package main

import (
	"fmt"
	"go/ast"
	"go/parser"
	"go/token"
	"os"
	"path/filepath"
	"regexp"
	"sort"
	"strconv"
	"strings"
)

type tr struct {
	fset  *token.FileSet
	files map[string]*ast.File
	errs  []string
}

func (t *tr) fail(f string, a ...interface{}) { t.errs = append(t.errs, fmt.Sprintf(f, a...)) }

func (t *tr) varValue(name string) ast.Expr {
	for _, f := range t.files {
		for _, d := range f.Decls {
			gd, ok := d.(*ast.GenDecl)
			if !ok {
				continue
			}
			for _, s := range gd.Specs {
				vs, ok := s.(*ast.ValueSpec)
				if !ok {
					continue
				}
				for i, n := range vs.Names {
					if n.Name == name && i < len(vs.Values) {
						return vs.Values[i]
					}
				}
			}
		}
	}
	t.fail("declaration %s not found", name)
	return nil
}

func pkgVarExists(t *tr, name string) (ast.Expr, bool) {
	for _, f := range t.files {
		for _, d := range f.Decls {
			if gd, ok := d.(*ast.GenDecl); ok {
				for _, sp := range gd.Specs {
					if vs, ok := sp.(*ast.ValueSpec); ok {
						for i, n := range vs.Names {
							if n.Name == name && i < len(vs.Values) {
								return vs.Values[i], true
							}
						}
					}
				}
			}
		}
	}
	return nil, false
}

func (t *tr) funcDecl(name string) *ast.FuncDecl {
	recv := ""
	fname := name
	if i := strings.Index(name, ":"); i >= 0 {
		fname, recv = name[:i], name[i+1:]
	}
	for _, f := range t.files {
		for _, d := range f.Decls {
			if fd, ok := d.(*ast.FuncDecl); ok && fd.Name.Name == fname && recvName(fd) == recv {
				return fd
			}
		}
	}
	t.fail("function %s not found", name)
	return nil
}

func strLit(e ast.Expr) (string, bool) {
	bl, ok := e.(*ast.BasicLit)
	if !ok || bl.Kind != token.STRING {
		return "", false
	}
	s, err := strconv.Unquote(bl.Value)
	return s, err == nil
}

// the package-level declarations (name -> value expression), for constants that are named instead of written out
var pkgDecls = map[string]ast.Expr{}

func intLit(e ast.Expr) (int64, bool) { return intLitD(e, 0) }

func intLitD(e ast.Expr, depth int) (int64, bool) {
	if depth > 8 {
		return 0, false
	}
	switch x := e.(type) {
	case *ast.BasicLit:
		if x.Kind == token.INT {
			v, err := strconv.ParseInt(strings.ReplaceAll(x.Value, "_", ""), 0, 64)
			return v, err == nil
		}
	case *ast.Ident: // a named constant of the package
		if v, ok := pkgDecls[x.Name]; ok && v != nil {
			return intLitD(v, depth+1)
		}
	case *ast.ParenExpr:
		return intLitD(x.X, depth+1)
	case *ast.UnaryExpr:
		if v, ok := intLitD(x.X, depth+1); ok {
			switch x.Op {
			case token.SUB:
				return -v, true
			case token.ADD:
				return v, true
			}
		}
	case *ast.BinaryExpr:
		l, ok1 := intLitD(x.X, depth+1)
		r, ok2 := intLitD(x.Y, depth+1)
		if ok1 && ok2 {
			switch x.Op {
			case token.ADD:
				return l + r, true
			case token.SUB:
				return l - r, true
			case token.MUL:
				return l * r, true
			case token.SHL:
				if r >= 0 && r < 63 {
					return l << uint(r), true
				}
			}
		}
	case *ast.SelectorExpr:
		if id, ok := x.X.(*ast.Ident); ok && id.Name == "math" {
			switch x.Sel.Name {
			case "MaxInt8":
				return 127, true
			case "MinInt8":
				return -128, true
			case "MaxUint8":
				return 255, true
			case "MaxInt16":
				return 32767, true
			case "MinInt16":
				return -32768, true
			case "MaxUint16":
				return 65535, true
			case "MaxInt32":
				return 2147483647, true
			}
		}
	case *ast.CallExpr: // uint8(0b...), float64 conversions
		if len(x.Args) == 1 {
			return intLitD(x.Args[0], depth+1)
		}
	}
	return 0, false
}

// the functions of the package a function calls (by plain name or method name), transitively up to `depth` levels:
// a constant or a comparison that moved into a helper is still found
func (t *tr) withCallees(fd *ast.FuncDecl, depth int) []*ast.FuncDecl {
	res := []*ast.FuncDecl{fd}
	seen := map[*ast.FuncDecl]bool{fd: true}
	frontier := []*ast.FuncDecl{fd}
	for d := 0; d < depth; d++ {
		var next []*ast.FuncDecl
		for _, f := range frontier {
			if f.Body == nil {
				continue
			}
			ast.Inspect(f.Body, func(n ast.Node) bool {
				ce, ok := n.(*ast.CallExpr)
				if !ok {
					return true
				}
				name := ""
				switch fx := ce.Fun.(type) {
				case *ast.Ident:
					name = fx.Name
				case *ast.SelectorExpr:
					name = fx.Sel.Name
				case *ast.IndexExpr: // explicit instantiation f[T](..)
					if id, ok := fx.X.(*ast.Ident); ok {
						name = id.Name
					}
				}
				if name == "" {
					return true
				}
				for _, file := range t.files {
					for _, dcl := range file.Decls {
						if g, ok := dcl.(*ast.FuncDecl); ok && g.Name.Name == name && !seen[g] {
							seen[g] = true
							res = append(res, g)
							next = append(next, g)
						}
					}
				}
				return true
			})
		}
		frontier = next
	}
	return res
}

func normExpr(s string) string { return strings.ToLower(strings.ReplaceAll(s, " ", "")) }

// sameShape: equal after normalisation, `*` in the pattern standing for any identifier (a receiver or parameter name)
func sameShape(pattern, got string) bool {
	p, g := normExpr(pattern), normExpr(got)
	if !strings.Contains(p, "*") {
		return p == g
	}
	re := "^" + strings.ReplaceAll(regexp.QuoteMeta(p), `\*`, `[a-z0-9_]+`) + "$"
	ok, err := regexp.MatchString(re, g)
	return err == nil && ok
}

func coqStr(s string) string { return `"` + strings.ReplaceAll(s, `"`, `""`) + `"` }

func coqStrList(l []string) string {
	q := make([]string, len(l))
	for i, s := range l {
		q[i] = coqStr(s)
	}
	return "[" + strings.Join(q, "; ") + "]"
}

// const string value of an identifier such as `Reordering` or `keywordIf`
func (t *tr) constString(name string) string {
	v := t.varValue(name)
	if v == nil {
		return ""
	}
	if s, ok := strLit(v); ok {
		return s
	}
	t.fail("constant %s is not a string literal", name)
	return ""
}

var arithModes = map[string]string{"add": "AAdd", "sub": "ASub", "mul": "AMul", "div": "ADiv", "mod": "AMod"}
var logicModes = map[string]string{"and": "LAnd", "or": "LOr", "xor": "LXor"}
var cmpModes = map[string]string{"greater": "CGt", "less": "CLt", "greaterEquals": "CGe", "lessEquals": "CLe"}
var timeModes = map[string]string{"date": "TDate", "datetime": "TDatetime", "toTime": "TToTime", "toDate": "TToDate", "toDefaultTime": "TToDefaultTime", "toDefaultDate": "TToDefaultDate"}
var verModes = map[string]string{"version": "VVersion", "toVersion": "VToVersion"}
var funcOps = map[string]string{"logicNot": "ONot", "comparisonEquals": "OEq", "comparisonNotEquals": "ONe",
	"comparisonBetween": "OBetween", "listIn": "OIn", "listOverlap": "OOverlap"}

func (t *tr) opcode(name string, e ast.Expr) string {
	switch x := e.(type) {
	case *ast.Ident:
		if oc, ok := funcOps[x.Name]; ok {
			return oc
		}
	case *ast.CallExpr: // ctor(args): a constructor whose body builds T{field: param, ...} and returns its execute method
		id, ok := x.Fun.(*ast.Ident)
		if !ok {
			break
		}
		var fd *ast.FuncDecl
		for _, f := range t.files {
			for _, d := range f.Decls {
				if g, ok := d.(*ast.FuncDecl); ok && g.Name.Name == id.Name && g.Recv == nil {
					fd = g
				}
			}
		}
		if fd == nil || fd.Body == nil || fd.Type.Params == nil {
			break
		}
		var params []string
		for _, fl := range fd.Type.Params.List {
			for _, n := range fl.Names {
				params = append(params, n.Name)
			}
		}
		if len(params) != len(x.Args) {
			break
		}
		arg := map[string]ast.Expr{}
		for i, p := range params {
			arg[p] = x.Args[i]
		}
		var lit *ast.CompositeLit
		returnsExecute := false
		ast.Inspect(fd.Body, func(n ast.Node) bool {
			switch y := n.(type) {
			case *ast.CompositeLit:
				if tn, ok := y.Type.(*ast.Ident); ok && lit == nil {
					switch tn.Name {
					case "arithmetic", "logic", "comparison", "timeConvert", "versionConvert":
						lit = y
					}
				}
			case *ast.ReturnStmt:
				if len(y.Results) == 1 {
					if se, ok := y.Results[0].(*ast.SelectorExpr); ok && se.Sel.Name == "execute" {
						returnsExecute = true
					}
				}
			}
			return true
		})
		if lit == nil || !returnsExecute {
			break
		}
		sub := &ast.CompositeLit{Type: lit.Type}
		for _, el := range lit.Elts {
			kv, ok := el.(*ast.KeyValueExpr)
			if !ok {
				sub = nil
				break
			}
			val := kv.Value
			if vid, ok := val.(*ast.Ident); ok {
				if a, ok := arg[vid.Name]; ok {
					val = a
				}
			}
			sub.Elts = append(sub.Elts, &ast.KeyValueExpr{Key: kv.Key, Value: val})
		}
		if sub == nil {
			break
		}
		return t.opcode(name, &ast.SelectorExpr{X: sub, Sel: ast.NewIdent("execute")})
	case *ast.SelectorExpr: // T{...}.execute
		cl, ok := x.X.(*ast.CompositeLit)
		if !ok || x.Sel.Name != "execute" {
			break
		}
		tn, ok := cl.Type.(*ast.Ident)
		if !ok {
			break
		}
		fields := map[string]ast.Expr{}
		for _, el := range cl.Elts {
			kv, ok := el.(*ast.KeyValueExpr)
			if !ok {
				t.fail("operator %s: positional composite literal", name)
				return "ONot"
			}
			fields[kv.Key.(*ast.Ident).Name] = kv.Value
		}
		modeId := ""
		if m, ok := fields["mode"].(*ast.Ident); ok {
			modeId = m.Name
		}
		switch tn.Name {
		case "arithmetic":
			if m, ok := arithModes[modeId]; ok && len(fields) == 1 {
				return "OArith " + m
			}
		case "logic":
			if m, ok := logicModes[modeId]; ok && len(fields) == 1 {
				return "OLogic " + m
			}
		case "comparison":
			if m, ok := cmpModes[modeId]; ok && len(fields) == 1 {
				return "OCmp " + m
			}
		case "timeConvert":
			if m, ok := timeModes[modeId]; ok {
				layout := ""
				if l, ok := fields["layout"]; ok {
					if lit, isLit := strLit(l); isLit {
						layout = lit
					} else {
						id, ok := l.(*ast.Ident)
						if !ok {
							break
						}
						layout = t.constString(id.Name)
					}
				}
				return "OTime " + m + " " + coqStr(layout)
			}
		case "versionConvert":
			if m, ok := verModes[modeId]; ok {
				if v, ok := intLit(fields["validLen"]); ok {
					return fmt.Sprintf("OVersion %s %d", m, v)
				}
			}
		}
	}
	t.fail("operator %s: unknown implementation shape", name)
	return "ONot"
}

// all string literals compared with == against identifier `v` in a function
func (t *tr) eqStrings(fn string) []string {
	fd := t.funcDecl(fn)
	var res []string
	if fd == nil {
		return res
	}
	collect := func(body *ast.BlockStmt) {
		ast.Inspect(body, func(n ast.Node) bool {
			switch x := n.(type) {
			case *ast.BinaryExpr:
				if x.Op == token.EQL {
					if s, ok := strLit(x.Y); ok {
						res = append(res, s)
					} else if s, ok := strLit(x.X); ok {
						res = append(res, s)
					}
				}
			case *ast.CaseClause: // switch name { case "and", "&", "&&": ... }
				for _, e := range x.List {
					if s, ok := strLit(e); ok {
						res = append(res, s)
					}
				}
			}
			return true
		})
	}
	collect(fd.Body)
	if len(res) == 0 {
		// `return classify(n) == K`: the labels of the case clauses of `classify` that return K (nothing is guessed when
		// the shape is any other: a helper may classify several families at once)
		var callee, kind string
		ast.Inspect(fd.Body, func(n ast.Node) bool {
			if be, ok := n.(*ast.BinaryExpr); ok && be.Op == token.EQL {
				if ce, ok := be.X.(*ast.CallExpr); ok {
					if f, ok := ce.Fun.(*ast.Ident); ok {
						if k, ok := be.Y.(*ast.Ident); ok {
							callee, kind = f.Name, k.Name
						}
					}
				}
			}
			return true
		})
		if callee != "" {
			for _, g := range t.withCallees(fd, 1)[1:] {
				if g.Name.Name != callee || g.Body == nil {
					continue
				}
				ast.Inspect(g.Body, func(n ast.Node) bool {
					cc, ok := n.(*ast.CaseClause)
					if !ok {
						return true
					}
					returnsKind := false
					for _, st := range cc.Body {
						if rs, ok := st.(*ast.ReturnStmt); ok && len(rs.Results) == 1 {
							if id, ok := rs.Results[0].(*ast.Ident); ok && id.Name == kind {
								returnsKind = true
							}
						}
					}
					if returnsKind {
						for _, e := range cc.List {
							if s, ok := strLit(e); ok {
								res = append(res, s)
							}
						}
					}
					return true
				})
			}
		}
	}
	if len(res) == 0 {
		t.fail("%s: no string comparisons found", fn)
	}
	return res
}

// integer literal Y of binary expressions `X op Y` in fn where X prints as xs
func (t *tr) cmpConst(fn, xs string, op token.Token) int64 {
	fd := t.funcDecl(fn)
	if fd == nil {
		return 0
	}
	var found []int64
	flip := map[token.Token]token.Token{token.LSS: token.GTR, token.GTR: token.LSS, token.LEQ: token.GEQ, token.GEQ: token.LEQ, token.MUL: token.MUL, token.ADD: token.ADD}
	// (no strict/non-strict rewriting: `x >= n` next to an expected `x > n` may just as well be the opposite bound of a
	// range test written the other way round, and a wrongly read constant would be worse than an unread one)
	assignOp := map[token.Token]token.Token{token.MUL: token.MUL_ASSIGN, token.ADD: token.ADD_ASSIGN}
	scan := func(body *ast.BlockStmt) {
		ast.Inspect(body, func(n ast.Node) bool {
			switch x := n.(type) {
			case *ast.BinaryExpr:
				if x.Op == op && sameShape(xs, exprString(x.X)) {
					if v, ok := intLit(x.Y); ok {
						found = append(found, v)
					}
				} else if f, ok := flip[op]; ok && x.Op == f && sameShape(xs, exprString(x.Y)) {
					if v, ok := intLit(x.X); ok {
						found = append(found, v)
					}
				}
			case *ast.AssignStmt: // res *= 10000
				if ao, ok := assignOp[op]; ok && x.Tok == ao && len(x.Lhs) == 1 && len(x.Rhs) == 1 && sameShape(xs, exprString(x.Lhs[0])) {
					if v, ok := intLit(x.Rhs[0]); ok {
						found = append(found, v)
					}
				}
			}
			return true
		})
	}
	scan(fd.Body)
	if len(found) == 0 {
		for _, g := range t.withCallees(fd, 3)[1:] {
			if g.Body != nil {
				scan(g.Body)
			}
		}
	}
	if len(found) == 0 {
		t.fail("%s: pattern `%s %s <int>` not found", fn, xs, op)
		return 0
	}
	for _, v := range found {
		if v != found[0] {
			t.fail("%s: pattern `%s %s <int>` has differing constants %v", fn, xs, op, found)
		}
	}
	return found[0]
}

func exprString(e ast.Expr) string {
	switch x := e.(type) {
	case *ast.Ident:
		return x.Name
	case *ast.SelectorExpr:
		return exprString(x.X) + "." + x.Sel.Name
	case *ast.CallExpr:
		a := []string{}
		for _, y := range x.Args {
			a = append(a, exprString(y))
		}
		return exprString(x.Fun) + "(" + strings.Join(a, ",") + ")"
	case *ast.BinaryExpr:
		return exprString(x.X) + x.Op.String() + exprString(x.Y)
	case *ast.BasicLit:
		return x.Value
	case *ast.ParenExpr:
		return "(" + exprString(x.X) + ")"
	case *ast.IndexExpr:
		return exprString(x.X) + "[" + exprString(x.Index) + "]"
	}
	return "?"
}

// local constants declared inside a function
func (t *tr) localConst(fn, name string) int64 {
	fd := t.funcDecl(fn)
	if fd == nil {
		return 0
	}
	var res *int64
	ast.Inspect(fd.Body, func(n ast.Node) bool {
		if vs, ok := n.(*ast.ValueSpec); ok {
			for i, id := range vs.Names {
				if id.Name == name && i < len(vs.Values) {
					if v, ok := intLit(vs.Values[i]); ok {
						res = &v
					}
				}
			}
		}
		return true
	})
	if res == nil {
		t.fail("%s: local constant %s not found", fn, name)
		return 0
	}
	return *res
}

func main() {
	if len(os.Args) != 3 {
		fmt.Fprintln(os.Stderr, "usage: translator <repo> <out.v>")
		os.Exit(2)
	}
	repo, out := os.Args[1], os.Args[2]
	t := &tr{fset: token.NewFileSet(), files: map[string]*ast.File{}}
	for _, fn := range []string{"compiler.go", "engine.go", "operator.go", "parser.go", "variable.go", "util.go"} {
		f, err := parser.ParseFile(t.fset, filepath.Join(repo, fn), nil, 0)
		if err != nil {
			fmt.Fprintln(os.Stderr, "translator: parse error:", err)
			os.Exit(3)
		}
		t.files[fn] = f
		for _, d := range f.Decls {
			if gd, ok := d.(*ast.GenDecl); ok && gd.Tok == token.CONST {
				for _, sp := range gd.Specs {
					if vs, ok := sp.(*ast.ValueSpec); ok {
						for i, n := range vs.Names {
							if i < len(vs.Values) {
								pkgDecls[n.Name] = vs.Values[i]
							}
						}
					}
				}
			}
		}
	}

	var b strings.Builder
	b.WriteString("(* GENERATED by /verif/translator from /repo/*.go — do not edit. *)\n")
	b.WriteString("From Coq Require Import String ZArith List.\nImport ListNotations.\nRequire Import Opcode.\nOpen Scope string_scope.\nOpen Scope Z_scope.\n\n")

	// builtinOperators
	if cl, ok := t.varValue("builtinOperators").(*ast.CompositeLit); ok {
		b.WriteString("Definition builtin_table : list (string * opcode) := [\n")
		seen := map[string]bool{}
		for i, el := range cl.Elts {
			kv := el.(*ast.KeyValueExpr)
			k, ok := strLit(kv.Key)
			if !ok {
				t.fail("builtinOperators: non literal key")
				continue
			}
			if seen[k] {
				t.fail("builtinOperators: duplicate key %s", k)
			}
			seen[k] = true
			sep := ";"
			if i == len(cl.Elts)-1 {
				sep = ""
			}
			fmt.Fprintf(&b, "  (%s, %s)%s\n", coqStr(k), t.opcode(k, kv.Value), sep)
		}
		b.WriteString("].\n\n")
	} else {
		t.fail("builtinOperators is not a composite literal")
	}

	// stateless list
	strList := func(name string) []string {
		var res []string
		cl, ok := t.varValue(name).(*ast.CompositeLit)
		if !ok {
			t.fail("%s is not a composite literal", name)
			return res
		}
		for _, el := range cl.Elts {
			if s, ok := strLit(el); ok {
				res = append(res, s)
			} else if id, ok := el.(*ast.Ident); ok {
				res = append(res, t.constString(id.Name))
			} else {
				t.fail("%s: unknown element", name)
			}
		}
		return res
	}
	fmt.Fprintf(&b, "Definition builtin_stateless : list string := %s.\n\n", coqStrList(strList("builtinStatelessOperations")))
	fmt.Fprintf(&b, "Definition optimizations_order : list string := %s.\n\n", coqStrList(strList("optimizations")))
	// optimizerMap: option -> pass function
	if cl, ok := t.varValue("optimizerMap").(*ast.CompositeLit); ok {
		var items []string
		for _, el := range cl.Elts {
			kv := el.(*ast.KeyValueExpr)
			items = append(items, fmt.Sprintf("(%s, %s)", coqStr(t.constString(kv.Key.(*ast.Ident).Name)), coqStr(kv.Value.(*ast.Ident).Name)))
		}
		fmt.Fprintf(&b, "Definition optimizer_map : list (string * string) := [%s].\n\n", strings.Join(items, "; "))
	} else {
		t.fail("optimizerMap is not a composite literal")
	}
	fmt.Fprintf(&b, "Definition opt_all_switch : string := %s.\n\n", coqStr(t.constString("Optimize")))
	// the keyword list: the array `keywords`, or (when the lookup became a switch) the case labels of isKeyword
	kwList := func() []string {
		if _, ok := pkgVarExists(t, "keywords"); ok {
			return strList("keywords")
		}
		var res []string
		for _, f := range t.files {
			for _, d := range f.Decls {
				fd, ok := d.(*ast.FuncDecl)
				if !ok || fd.Name.Name != "isKeyword" || fd.Body == nil {
					continue
				}
				ast.Inspect(fd.Body, func(n ast.Node) bool {
					if cc, ok := n.(*ast.CaseClause); ok {
						for _, e := range cc.List {
							if s, ok := strLit(e); ok {
								res = append(res, s)
							} else if id, ok := e.(*ast.Ident); ok {
								res = append(res, t.constString(id.Name))
							} else if ce, ok := e.(*ast.CallExpr); ok && len(ce.Args) == 1 { // keyword(keywordIf)
								if id, ok := ce.Args[0].(*ast.Ident); ok {
									res = append(res, t.constString(id.Name))
								}
							}
						}
					}
					return true
				})
			}
		}
		if len(res) == 0 {
			t.fail("keywords: neither the array nor a switch in isKeyword found")
		}
		return res
	}
	fmt.Fprintf(&b, "Definition keywords : list string := %s.\n", coqStrList(kwList()))
	fmt.Fprintf(&b, "Definition keyword_if : string := %s.\n\n", coqStr(t.constString("keywordIf")))
	andAl, orAl := t.eqStrings("isAndOpNode"), t.eqStrings("isOrOpNode")
	for _, x := range andAl {
		for _, y := range orAl {
			if x == y {
				t.fail("isAndOpNode/isOrOpNode: the alias sets read from the source overlap (%s): not recognised", x)
			}
		}
	}
	fmt.Fprintf(&b, "Definition and_aliases : list string := %s.\n", coqStrList(andAl))
	fmt.Fprintf(&b, "Definition or_aliases : list string := %s.\n\n", coqStrList(orAl))

	// builtin constants
	if cl, ok := t.varValue("builtinConstants").(*ast.CompositeLit); ok {
		var items []string
		for _, el := range cl.Elts {
			kv := el.(*ast.KeyValueExpr)
			k, _ := strLit(kv.Key)
			id, ok := kv.Value.(*ast.Ident)
			if !ok || (id.Name != "true" && id.Name != "false") {
				t.fail("builtinConstants: %s is not a boolean", k)
				continue
			}
			items = append(items, fmt.Sprintf("(%s, %s)", coqStr(k), id.Name))
		}
		fmt.Fprintf(&b, "Definition builtin_constants : list (string * bool) := [%s].\n\n", strings.Join(items, "; "))
	} else {
		t.fail("builtinConstants is not a composite literal")
	}

	// modeNames
	if cl, ok := t.varValue("modeNames").(*ast.CompositeLit); ok {
		var items []string
		for _, el := range cl.Elts {
			kv := el.(*ast.KeyValueExpr)
			v, _ := strLit(kv.Value)
			items = append(items, fmt.Sprintf("(%s, %s)", coqStr(kv.Key.(*ast.Ident).Name), coqStr(v)))
		}
		fmt.Fprintf(&b, "Definition mode_names : list (string * string) := [%s].\n\n", strings.Join(items, "; "))
	} else {
		t.fail("modeNames is not a composite literal")
	}

	// infix table: the switch in getInfixOpInfo
	if fd := t.funcDecl("getInfixOpInfo:parser"); fd != nil {
		var items []string
		def := ""
		ast.Inspect(fd.Body, func(n ast.Node) bool {
			cc, ok := n.(*ast.CaseClause)
			if !ok {
				return true
			}
			if len(cc.Body) != 1 {
				t.fail("getInfixOpInfo: case body shape")
				return false
			}
			rs, ok := cc.Body[0].(*ast.ReturnStmt)
			if !ok || len(rs.Results) != 1 {
				t.fail("getInfixOpInfo: case body shape")
				return false
			}
			cl, ok := rs.Results[0].(*ast.CompositeLit)
			if !ok {
				t.fail("getInfixOpInfo: case body shape")
				return false
			}
			var prec, cnt string
			for _, el := range cl.Elts {
				kv := el.(*ast.KeyValueExpr)
				var val string
				if id, ok := kv.Value.(*ast.Ident); ok {
					val = fmt.Sprint(t.constInt(id.Name))
				} else if u, ok := kv.Value.(*ast.UnaryExpr); ok && u.Op == token.SUB {
					v, _ := intLit(u.X)
					val = fmt.Sprintf("(-%d)", v)
				} else if v, ok := intLit(kv.Value); ok {
					val = fmt.Sprint(v)
				} else {
					t.fail("getInfixOpInfo: value shape")
				}
				switch kv.Key.(*ast.Ident).Name {
				case "precedence":
					prec = val
				case "childCount":
					cnt = val
				}
			}
			if cc.List == nil {
				def = fmt.Sprintf("(%s, %s)", prec, cnt)
			}
			for _, e := range cc.List {
				s, ok := strLit(e)
				if !ok {
					t.fail("getInfixOpInfo: case label shape")
				}
				items = append(items, fmt.Sprintf("(%s, (%s, %s))", coqStr(s), prec, cnt))
			}
			return false
		})
		fmt.Fprintf(&b, "Definition infix_table : list (string * (Z * Z)) := [%s].\n", strings.Join(items, "; "))
		fmt.Fprintf(&b, "Definition infix_default : Z * Z := %s.\n", def)
		fmt.Fprintf(&b, "Definition func_precedence : Z := %d.\n\n", t.constInt("funcPrecedence"))
	}

	// numeric limits
	consts := []struct {
		name string
		v    int64
	}{
		{"max_children", t.cmpConst("check", "len(*.children)", token.GTR)},
		{"max_nodes", t.cmpConst("check", "size", token.GTR)},
		{"stack_small", t.stackClass("Eval", 0)},
		{"stack_mid", t.stackClass("Eval", 1)},
		{"try_stack_small", t.stackClass("TryEval", 0)},
		{"try_stack_mid", t.stackClass("TryEval", 1)},
		{"overlap_threshold", t.cmpConst("listOverlap", "len(A)+len(B)", token.LSS)},
		{"version_limit", t.cmpConst("execute:versionConvert", "v", token.GEQ)},
		{"version_base", t.cmpConst("execute:versionConvert", "res", token.MUL)},
		{"version_max_len", t.cmpConst("execute:versionConvert", "temp", token.GTR)},
		{"version_min_len", t.cmpConst("execute:versionConvert", "temp", token.LSS)},
		{"slice_fetcher_limit", t.cmpConst("NewCtxFromVars", "maxKey", token.LSS)},
		{"cost_default", t.localConst("getCosts:Config", "defaultCost")},
		{"cost_variable", t.localConst("getCosts:Config", "variableCost")},
		{"cost_operator", t.localConst("getCosts:Config", "operatorCost")},
		{"cost_loops", t.localConst("calculateNodeCosts", "loops")},
		{"cost_inlined", t.localConst("calculateNodeCosts", "inlinedCall")},
		{"cost_funccall", t.localConst("calculateNodeCosts", "funcCall")},
		{"cost_cond_loops", t.cmpConst("calculateNodeCosts", "loops", token.MUL)},
		{"undefined_var_key", t.constInt("UndefinedVarKey")},
		{"event_max_nodes", t.cmpConst("Compile", "len(expr.nodes)", token.GTR)},
	}
	for _, c := range consts {
		fmt.Fprintf(&b, "Definition %s : Z := %d.\n", c.name, c.v)
	}
	fmt.Fprintf(&b, "Definition cost_variable_key : string := %s.\n", coqStr(t.localString("getCosts:Config", "variableNode")))
	fmt.Fprintf(&b, "Definition cost_operator_key : string := %s.\n", coqStr(t.localString("getCosts:Config", "operatorNode")))

	if len(t.errs) > 0 {
		sort.Strings(t.errs)
		for _, e := range t.errs {
			fmt.Fprintln(os.Stderr, "translator:", e)
		}
		os.Exit(1)
	}
	if err := os.WriteFile(out, []byte(b.String()), 0o644); err != nil {
		fmt.Fprintln(os.Stderr, err)
		os.Exit(3)
	}
}

func (t *tr) constInt(name string) int64 {
	v := t.varValue(name)
	if v == nil {
		return 0
	}
	if i, ok := intLit(v); ok {
		return i
	}
	t.fail("constant %s is not an integer", name)
	return 0
}

func (t *tr) localString(fn, name string) string {
	fd := t.funcDecl(fn)
	if fd == nil {
		return ""
	}
	res, found := "", false
	ast.Inspect(fd.Body, func(n ast.Node) bool {
		if vs, ok := n.(*ast.ValueSpec); ok {
			for i, id := range vs.Names {
				if id.Name == name && i < len(vs.Values) {
					if v, ok := strLit(vs.Values[i]); ok {
						res, found = v, true
					}
				}
			}
		}
		return true
	})
	if !found {
		t.fail("%s: local string constant %s not found", fn, name)
	}
	return res
}

// the k-th `m <= N` case in the stack allocation switch of Eval / TryEval
func (t *tr) stackClass(fn string, k int) int64 {
	fd := t.funcDecl(fn + ":Expr")
	if fd == nil {
		return 0
	}
	var found []int64
	ast.Inspect(fd.Body, func(n ast.Node) bool {
		if be, ok := n.(*ast.BinaryExpr); ok && be.Op == token.LEQ && exprString(be.X) == "m" {
			if v, ok := intLit(be.Y); ok {
				found = append(found, v)
			}
		}
		return true
	})
	if len(found) != 2 {
		// the allocation moved into a helper, or the variable has another name: the `case <x> <= <int>:` labels of a
		// switch whose cases allocate with make(), in the function or the helpers it calls
		found = nil
		for _, g := range t.withCallees(fd, 2) {
			if g.Body == nil {
				continue
			}
			ast.Inspect(g.Body, func(n ast.Node) bool {
				sw, ok := n.(*ast.SwitchStmt)
				if !ok {
					return true
				}
				var vals []int64
				makes := 0
				for _, st := range sw.Body.List {
					cc, ok := st.(*ast.CaseClause)
					if !ok {
						continue
					}
					for _, e := range cc.List {
						if be, ok := e.(*ast.BinaryExpr); ok && be.Op == token.LEQ {
							if v, ok := intLit(be.Y); ok {
								vals = append(vals, v)
							}
						}
					}
					ast.Inspect(cc, func(m ast.Node) bool {
						if ce, ok := m.(*ast.CallExpr); ok {
							if id, ok := ce.Fun.(*ast.Ident); ok && id.Name == "make" {
								makes++
							}
						}
						return true
					})
				}
				if len(vals) == 2 && makes >= 2 && len(found) == 0 {
					found = vals
				}
				return true
			})
			if len(found) == 2 {
				break
			}
		}
	}
	if len(found) != 2 {
		t.fail("%s: stack allocation switch not recognised", fn)
		return 0
	}
	return found[k]
}

func recvName(fd *ast.FuncDecl) string {
	if fd.Recv == nil || len(fd.Recv.List) == 0 {
		return ""
	}
	switch x := fd.Recv.List[0].Type.(type) {
	case *ast.Ident:
		return x.Name
	case *ast.StarExpr:
		if id, ok := x.X.(*ast.Ident); ok {
			return id.Name
		}
	}
	return ""
}
