#!/bin/sh
# setup.sh — build the whole framework offline from files on disk: translator, generated tables,
# the Coq development (full .vo build, never -vos), and the Go harness against /repo's working tree.
export GOFLAGS=-mod=mod GOPROXY=off GOSUMDB=off GOTOOLCHAIN=local CARGO_NET_OFFLINE=true PIP_NO_INDEX=1
set -e
cd /verif
mkdir -p _build/bin evidence
(cd translator && go build -o ../_build/bin/translator .)
_build/bin/translator /repo coq/Generated/Tables.v || cp coq/Generated/TablesRef.v coq/Generated/Tables.v
(cd coq && coq_makefile -f _CoqProject -o Makefile >/dev/null && timeout 3000 make -j16 2>&1 | tail -n 30)
(cd harness && cp /repo/go.sum . 2>/dev/null; go build -tags verif -o ../_build/bin/check . && go build -race -tags verif -o ../_build/bin/check_race .)
echo "setup done"
